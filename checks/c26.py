"""C26 -- ffi.init_once runs the initializer once under any interleaving.
Engine P over the real Python implementation (cffi.api.FFI.init_once, with
instruction-level pre-emption and SimLock) and the real C implementation
(_cffi_backend.FFI().init_once from the sim build, lock hook)."""
import os, sys, json
from sim import core, build
from sim.core import Outcome, PRNG, HarnessError, digest_of

STRATS = ['random', 'sticky', 'pct']


class C26(core.Check):
    pid = 'C26'
    level = 'exploration'
    engine = 'P'
    quick_runs = 6000
    thorough_budget_s = 900
    chunk = 150
    hang_clause = 'C26.6'
    crash_clause = 'C26.3'
    rule = ('one run = seeded workload (2-4 threads x 1-3 init_once calls over 1-3 tag classes, '
            '1-2 FFI objects, initializers that yield/raise/nest, hostile tag __hash__/__eq__) '
            'executed under a seeded schedule (uniform / sticky / PCT) with pre-emption at every '
            'bytecode of FFI.init_once, every lock operation and every GIL-release site of '
            'ffi_init_once; non-trivial = at least one context switch happened while some '
            'init_once call was in flight on a tag that another call also used; distinct = '
            'distinct digest of the (client, point) trace')
    components = {
        'real': ['cffi.api.FFI.init_once (working tree, unmodified bytecode)',
                 '_cffi_backend.FFI.init_once (working tree, private sim build with pass-through lock shim)',
                 'CPython dict / tuple / lock objects'],
        'simulated': ['thread scheduling (baton passing, one runnable OS thread at a time)',
                      'cffi.api.allocate_lock -> SimLock (blocking is a scheduler state)',
                      'PyThread_acquire_lock wait -> trylock loop parked in the scheduler'],
        'stub': [],
    }
    assumptions = [
        'sequentially consistent interleavings at bytecode / GIL-release granularity (GIL build)',
        'no same-tag recursion from inside an initializer; nested init_once only towards higher tags',
        'tag __eq__/__hash__ never raise',
    ]

    def prepare(self, tier):
        self.bdir = build.backend(True)
        build.activate(self.bdir)
        import cffi, cffi.api, _cffi_backend
        from sim import pysched
        self.cffi = cffi
        self.api = cffi.api
        self.backend = _cffi_backend
        self.pysched = pysched
        self.hook = pysched.CLockHook(_cffi_backend.__file__)
        self.cur = None
        self.making = False
        self.real_allocate_lock = cffi.api.allocate_lock
        check = self

        def alloc():
            s = check.cur
            if s is None and not check.making:
                return check.real_allocate_lock()
            check.nlocks += 1
            return pysched.SimLock(lambda: check.cur, name='L%d' % check.nlocks)
        self._alloc = alloc

    # ------------------------------------------------------------------
    def generate(self, rng, idx, tier):
        impl = 'py' if idx % 2 == 0 else 'c'
        nthreads = rng.weighted([(2, 4), (3, 5), (4, 2)])
        ntags = rng.weighted([(1, 5), (2, 3), (3, 2)])
        nffi = rng.weighted([(1, 4), (2, 1)])
        hostile = rng.chance(0.5)
        p_raise = rng.choice([0.0, 0.0, 0.3, 0.6, 1.0])
        p_nest = rng.choice([0.0, 0.0, 0.25])
        threads = []
        for t in range(nthreads):
            calls = []
            for k in range(rng.randint(1, 3)):
                calls.append(self._gen_call(rng, ntags, nffi, p_raise, p_nest, 0))
            threads.append(calls)
        return dict(impl=impl, variant=impl, hostile=hostile, ntags=ntags, nffi=nffi,
                    threads=threads, strategy=rng.choice(STRATS),
                    stick=rng.choice([0.5, 0.8, 0.95]),
                    pct_changes=rng.randint(1, 3),
                    sched_seed=rng.u64())

    def _gen_call(self, rng, ntags, nffi, p_raise, p_nest, mintag):
        tag = rng.randint(mintag, ntags - 1)
        call = dict(ffi=rng.below(nffi), tag=tag, points=rng.randint(0, 4),
                    end='raise' if rng.chance(p_raise) else rng.weighted([('ok', 8), ('none', 1), ('false', 1),
                                                                          ('tuple', 1)]), nest=None,
                    exc=rng.weighted([(0, 6), (1, 2), (2, 1), (3, 1), (4, 1), (5, 1), (6, 1)]))
        if tag + 1 <= ntags - 1 and rng.chance(p_nest):
            call['nest'] = self._gen_call(rng, ntags, nffi, p_raise, 0.0, tag + 1)
        return call

    # ------------------------------------------------------------------
    def execute(self, case):
        ps = self.pysched
        out = Outcome()
        rng = PRNG(case['sched_seed'])
        ncalls = sum(len(t) for t in case['threads'])
        sched = ps.Sched(rng, case.get('strategy', 'random'), decisions=case.get('schedule'),
                         stick=case.get('stick', 0.8), pct_changes=case.get('pct_changes', 2),
                         est_len=40 * ncalls)
        self.nlocks = 0
        impl = case['impl']
        events = []
        check = self

        class Tag(object):
            __slots__ = ('k',)

            def __init__(self, k):
                self.k = k

            def __hash__(self):
                if sched.is_holder_thread():
                    sched.point('hash')
                return 1000 + self.k

            def __eq__(self, other):
                if sched.is_holder_thread():
                    sched.point('eq')
                return isinstance(other, Tag) and other.k == self.k

            def __ne__(self, other):
                return not self.__eq__(other)

        if impl == 'py':
            # every lock these FFI objects allocate -- also in __init__ -- is a SimLock, so that a
            # lock shared between tags blocks in the scheduler (exact deadlock), never in the OS
            self.making = True
            self.api.allocate_lock = self._alloc
            try:
                ffis = [self.cffi.FFI() for _ in range(case['nffi'])]
            finally:
                self.api.allocate_lock = self.real_allocate_lock
                self.making = False
        else:
            ffis = [self.backend.FFI() for _ in range(case['nffi'])]

        class Sentinel(object):
            __slots__ = ('n', '__weakref__')

            def __init__(self, n):
                self.n = n

        class InitErr(Exception):
            pass

        # the same failure as other kinds of exception: outside Exception, and kinds that the
        # implementations themselves catch or use internally
        ERRS = [InitErr] + [type('InitErr_' + b.__name__, (b,), {}) for b in
                            (BaseException, KeyError, StopIteration, TypeError, RuntimeError, KeyboardInterrupt)]
        ERRS_T = tuple(ERRS)

        serial = [0]

        def do_call(c, call, depth):
            ffi = ffis[call['ffi']]
            tagk = call['tag']
            tag = Tag(tagk) if case['hostile'] else 'tag%d' % tagk
            key = (call['ffi'], tagk)
            serial[0] += 1
            cid = serial[0]
            state = {'ran': False, 'exc': None, 'obj': None}

            def f():
                state['ran'] = True
                events.append(('f_start', cid, key, c.id))
                for _ in range(call['points']):
                    sched.point('f')
                if call['nest'] is not None:
                    do_call(c, call['nest'], depth + 1)
                    sched.point('f')
                if call['end'] == 'raise':
                    e = ERRS[call.get('exc', 0) % len(ERRS)](cid)
                    if call.get('exc', 0):
                        out.probe('initializer_raises_unusual_exception_kind')
                    state['exc'] = e
                    events.append(('f_raise', cid, key, c.id))
                    raise e
                if call['end'] == 'none':
                    o = None                       # results that look like "nothing" or like a cache entry
                elif call['end'] == 'false':
                    o = False
                elif call['end'] == 'tuple':
                    o = (False, Sentinel(cid))
                else:
                    o = Sentinel(cid)
                state['obj'] = o
                events.append(('f_ok', cid, key, c.id, o))
                return o

            events.append(('call', cid, key, c.id))
            sched.point('call')
            try:
                r = ffi.init_once(f, tag)
            except ERRS_T as e:
                events.append(('exc', cid, key, c.id, e, state))
                if depth > 0:
                    pass     # the nested failure is contained: outer f continues
            except ps.Abandon:
                raise
            except BaseException as e:
                events.append(('exc', cid, key, c.id, e, state))
            else:
                events.append(('ret', cid, key, c.id, r, state))

        def make_body(calls):
            def body(c):
                if impl == 'c':
                    check.hook.set_client(1)
                for call in calls:
                    do_call(c, call, 0)
                if impl == 'c':
                    check.hook.set_client(0)
            return body

        for calls in case['threads']:
            sched.add_client(make_body(calls))

        self.cur = sched
        try:
            if impl == 'py':
                self.api.allocate_lock = self._alloc
                ps.INSTR.enable(sched, [self.api.FFI.init_once.__code__])
            else:
                self.hook.install(sched)
            verdict = sched.run()
        finally:
            if impl == 'py':
                ps.INSTR.disable()
                self.api.allocate_lock = self.real_allocate_lock
            else:
                self.hook.uninstall()
            self.cur = None

        out.steps = sched.steps
        out.schedule = sched.schedule
        out.digest = digest_of([impl, sched.trace])
        for c in sched.clients:
            if c.error is not None:
                return out.harness('client %d raised %r' % (c.id, c.error))
        if verdict == 'stepcap':
            return out.harness('step cap reached')
        self._oracle(case, events, verdict, sched, out)
        if out.verdict == 'ok' and verdict == 'done':
            self._cache_keeps_result(case, events, ffis, Tag, out)
        # probes / faults
        if impl == 'c':
            cont = self.hook.contended
        else:
            cont = sum(1 for (_, t) in sched.trace if t == 'lk-blocked')
        if cont:
            out.probe('lock_contended_' + impl)
        nraise = sum(1 for e in events if e[0] == 'f_raise')
        if nraise:
            out.fault('initializer_raises', nraise)
        if case['hostile']:
            n = sum(1 for (_, t) in sched.trace if t in ('eq', 'hash'))
            out.fault('hostile_tag_equality_points', n)
        if case.get('strategy') == 'pct':
            out.fault('thread_stall_pct')
        out.nontrivial = sched.switches > 0 and self._shared_tag(case)
        out.sample = dict(impl=impl, strategy=case.get('strategy'), threads=case['threads'],
                          hostile=case['hostile'], decisions=len(sched.schedule),
                          switches=sched.switches,
                          trace_head=['%d:%s' % t for t in sched.trace[:40]])
        return out

    def _cache_keeps_result(self, case, events, ffis, Tag, out):
        """after the schedule: the completed result must stay THE result -- the cache owns a reference
        of its own (a call that hands out a borrowed reference frees the cached object as soon as the
        callers drop theirs), and a later call returns that very object without running f"""
        import weakref, gc
        done = {}
        for ev in events:
            if ev[0] == 'f_ok':
                try:
                    done[ev[2]] = weakref.ref(ev[4])
                except TypeError:
                    pass                   # None / False / tuples cannot be weakly referenced
        if not done:
            return
        del events[:]                      # drops every reference the callers and the harness held
        gc.collect()
        for key in sorted(done):
            wr = done[key]
            if wr() is None:
                out.violate('C26.3', 'the completed result for %r was freed although it is still cached: a call '
                            'handed out a reference it did not own' % (key,), None)
                return
            ran = []
            tag = Tag(key[1]) if case['hostile'] else 'tag%d' % key[1]
            r = ffis[key[0]].init_once(lambda: ran.append(1) or object(), tag)
            if ran or r is not wr():
                out.violate('C26.3' if not ran else 'C26.4', 'a call made after all others returned %s'
                            % ('ran its initializer again' if ran else 'did not return the completed result'), None)
                return
        out.probe('cached_result_survives_dropping_all_callers')

    def _shared_tag(self, case):
        seen = {}
        for ti, calls in enumerate(case['threads']):
            for call in calls:
                c = call
                while c is not None:
                    seen.setdefault((c['ffi'], c['tag']), set()).add(ti)
                    c = c['nest']
        return any(len(v) > 1 for v in seen.values())

    def _oracle(self, case, events, verdict, sched, out):
        running = {}     # key -> cid of the f currently running
        ok = {}          # key -> (cid, obj, eventindex)
        waited_result = False
        raise_then_ok = {}
        for i, ev in enumerate(events):
            kind, cid, key = ev[0], ev[1], ev[2]
            if kind == 'f_start':
                if key in running:
                    return out.violate('C26.1', 'two initializers for %r ran at the same time '
                                       '(calls #%d and #%d)' % (key, running[key], cid), i)
                if key in ok:
                    return out.violate('C26.4', 'initializer of call #%d for %r started after call #%d '
                                       'had completed normally' % (cid, key, ok[key][0]), i)
                running[key] = cid
            elif kind == 'f_ok':
                running.pop(key, None)
                if key in ok:
                    return out.violate('C26.2', 'two initializers completed normally for %r '
                                       '(#%d and #%d)' % (key, ok[key][0], cid), i)
                ok[key] = (cid, ev[4], i)
                if raise_then_ok.get(key):
                    out.probe('raise_then_other_succeeds')
            elif kind == 'f_raise':
                running.pop(key, None)
                raise_then_ok[key] = True
            elif kind == 'ret':
                r, state = ev[4], ev[5]
                if key not in ok:
                    return out.violate('C26.3', 'call #%d for %r returned %r but no initializer had '
                                       'completed normally' % (cid, key, type(r).__name__), i)
                if r is not ok[key][1]:
                    return out.violate('C26.3', 'call #%d for %r returned an object that is not the '
                                       'result of the unique completed initializer (#%d)'
                                       % (cid, key, ok[key][0]), i)
                if state['exc'] is not None:
                    return out.violate('C26.5', 'call #%d: own initializer raised but the call '
                                       'returned normally' % cid, i)
                if not state['ran']:
                    out.probe('got_result_without_running_f')
            elif kind == 'exc':
                e, state = ev[4], ev[5]
                if state['exc'] is None:
                    return out.violate('C26.5', 'call #%d for %r ended with %r although its own '
                                       'initializer did not raise' % (cid, key, e), i)
                if e is not state['exc']:
                    return out.violate('C26.5', 'call #%d: propagated exception is not the one its '
                                       'initializer raised (%r)' % (cid, e), i)
        if verdict == 'deadlock':
            return out.violate('C26.6', 'deadlock: no client runnable, blocked: %r; no initializer '
                               'is blocked' % (sched.deadlock_info,), len(events))
        # every call must have ended
        ended = set(ev[1] for ev in events if ev[0] in ('ret', 'exc'))
        started = set(ev[1] for ev in events if ev[0] == 'call')
        if ended != started:
            return out.violate('C26.6', 'calls %r never returned' % sorted(started - ended), len(events))
        for c in case['threads']:
            for call in c:
                if call['nest'] is not None:
                    out.probe('nested_tag')
                    break
        return out

    # ------------------------------------------------------------------
    def shrink_candidates(self, case):
        th = case['threads']
        base = dict(case)
        sched = case.get('schedule')
        # drop a whole thread
        if len(th) > 1:
            for i in range(len(th)):
                yield dict(base, threads=th[:i] + th[i + 1:])
        # drop a call
        for i in range(len(th)):
            if len(th[i]) > 0:
                for j in range(len(th[i])):
                    nt = [list(x) for x in th]
                    del nt[i][j]
                    if any(nt):
                        yield dict(base, threads=nt)
        # simplify calls
        for i in range(len(th)):
            for j in range(len(th[i])):
                call = th[i][j]
                for change in (dict(nest=None), dict(points=0), dict(end='ok')):
                    k, v = list(change.items())[0]
                    if call[k] != v:
                        nt = [list(x) for x in th]
                        nt[i][j] = dict(call, **change)
                        yield dict(base, threads=nt)
        if case['hostile']:
            yield dict(base, hostile=False)
        # schedule simplification: keep the recorded schedule but merge segments
        if sched:
            yield dict(base, schedule=sched[:len(sched) // 2])
            for i in range(1, len(sched)):
                if sched[i] != sched[i - 1]:
                    s2 = list(sched)
                    s2[i] = sched[i - 1]
                    yield dict(base, schedule=s2)

    def signature(self, case, out):
        return '%s/%s' % (out.clause, case.get('impl'))


CHECK = C26()
