"""C37 -- closed dlopen libraries refuse further symbol access (engine H:
the close event is injected at an arbitrary point of an access history; dlsym /
dlclose / dlopen of the backend are observed through the build-time shim)."""
import os, sys, gc, ctypes
from sim import core, build, hist
from sim.core import Outcome, PRNG, HarnessError, digest_of

LIBSRC = """
int g_int = 10; long g_long = 20; int g_arr[4] = {1, 2, 3, 4};
struct pt { int x, y; }; struct pt g_pt = {5, 6};
int f_add(int a, int b) { return a + b; }
int f_mul(int a, int b) { return a * b; }
long f_id(long x) { return x; }
int f_get_int(void) { return g_int; }
void f_set_long(long v) { g_long = v; }
"""
CDEF = """
extern int g_int; extern long g_long; extern int g_arr[4];
struct pt { int x, y; }; extern struct pt g_pt;
int f_add(int a, int b); int f_mul(int a, int b); long f_id(long x);
int f_get_int(void); void f_set_long(long v);
#define K_ONE 1
enum col { RED, GREEN = 5 };
"""
FUNCS = ['f_add', 'f_mul', 'f_id', 'f_get_int', 'f_set_long']
VARS = ['g_int', 'g_long', 'g_arr', 'g_pt']


class Violation(Exception):
    def __init__(self, clause, detail):
        self.clause = clause
        self.detail = detail


class DlEv(ctypes.Structure):
    _fields_ = [('kind', ctypes.c_int), ('handle', ctypes.c_void_p), ('name', ctypes.c_char * 40)]


class Lib(object):
    def __init__(self, mode, ffi, lib):
        self.mode = mode
        self.ffi = ffi
        self.lib = lib
        self.closed = False
        self.fetched = set()       # functions fetched before the close
        self.touched_vars = set()
        self.addressed = set()


class Run(object):
    def __init__(self, check, case, out):
        self.check = check
        self.case = case
        self.out = out
        self.libs = []
        self.model = dict(g_int=10, g_long=20, g_arr=[1, 2, 3, 4], g_pt=[5, 6])
        self.trace = []
        self.opi = 0
        self.logpos = 0
        self.handles = {}          # handle -> open count (from the interposition log)
        self.hord = {}
        self.inline_ffi = None

    # ---- interposition log ----
    def scan_log(self, where):
        n = self.check.v_dl_n.value
        if n > 4096:
            raise HarnessError('dl log overflow')
        log = self.check.v_dl_log
        while self.logpos < n:
            ev = log[self.logpos]
            self.logpos += 1
            h = ev.handle
            if h not in self.hord:
                self.hord[h] = len(self.hord)
            if ev.kind == 1:
                if h:
                    self.handles[h] = self.handles.get(h, 0) + 1
            elif ev.kind == 3:
                c = self.handles.get(h, 0)
                if c <= 0:
                    raise Violation('C37.3', 'dlclose() on handle #%d which this process already closed (%s)'
                                    % (self.hord[h], where))
                self.handles[h] = c - 1
            elif ev.kind == 2:
                if self.handles.get(h, 0) <= 0:
                    raise Violation('C37.2', "dlsym(%r) on handle #%d after its dlclose(): the unloaded library "
                                    "was touched (%s)" % (ev.name.decode('ascii', 'replace'), self.hord[h], where))

    # ---- helpers ----
    def pick(self, k, pred=None):
        c = [l for l in self.libs if pred is None or pred(l)]
        if not c:
            return None
        return c[k % len(c)]

    def must_raise(self, L, what, fn):
        try:
            fn()
        except Exception:
            return True
        raise Violation('C37.1', '%s on a closed %s library did not raise' % (what, L.mode))

    def op_open(self, mode):
        if len(self.libs) >= 3:
            return
        if mode.startswith('inline'):
            # library objects opened through the SAME in-line ffi (the usual case) or through another one
            if self.inline_ffi is None or mode.startswith('inline2'):
                ffi = self.check.cffi.FFI()
                ffi.cdef(CDEF)
                if self.inline_ffi is None:
                    self.inline_ffi = ffi
            else:
                ffi = self.inline_ffi
                self.out.probe('second_library_object_from_the_same_inline_ffi')
        else:
            ffi = self.check.mod.ffi
        if mode.endswith('_handle'):
            # a library object made from an already-opened handle: no automatic dlclose, but an
            # explicit ffi.dlclose() closes it like any other.  The harness opens the handle itself
            # (that dlopen does not go through the backend) and accounts for it.
            import _ctypes
            h = _ctypes.dlopen(self.check.libpath, 2)       # RTLD_NOW
            self.check.shim.cffi_verif_note_open(ctypes.c_void_p(h))
            self.handles[h] = self.handles.get(h, 0) + 1
            if h not in self.hord:
                self.hord[h] = len(self.hord)
            lib = ffi.dlopen(ffi.cast('void *', h))
            self.out.probe('library_made_from_a_handle')
        else:
            lib = ffi.dlopen(self.check.libpath)
        self.libs.append(Lib(mode, ffi, lib))
        if len([l for l in self.libs if not l.closed]) > 1:
            self.out.probe('two_open_libs_on_same_file')

    def expected_call(self, name, a, b):
        if name == 'f_add':
            return a + b
        if name == 'f_mul':
            return a * b
        if name == 'f_id':
            return a
        if name == 'f_get_int':
            return self.model['g_int']
        return None

    def op_func(self, k, name, a, b, call):
        L = self.pick(k)
        if L is None:
            return
        if L.closed:
            if name in L.fetched:
                # either outcome is allowed by the statement
                try:
                    getattr(L.lib, name)
                    self.out.unspec('refetch_of_prefetched_function_after_close_succeeds')
                except Exception:
                    self.out.unspec('refetch_of_prefetched_function_after_close_raises')
                return
            self.must_raise(L, 'fetching function %s (not fetched before the close)' % name,
                            lambda: getattr(L.lib, name))
            self.out.probe('fetch_new_function_after_close_refused')
            return
        f = getattr(L.lib, name)
        L.fetched.add(name)
        if call:
            if name == 'f_add' or name == 'f_mul':
                got = f(a, b)
            elif name == 'f_id':
                got = f(a)
            elif name == 'f_get_int':
                got = f()
            else:
                f(a)
                self.model['g_long'] = a
                got = None
            want = self.expected_call(name, a, b)
            if got != want:
                raise Violation('C37.1', '%s.%s(...) returned %r, expected %r (library open)' % (L.mode, name, got, want))

    def read_var(self, L, name):
        v = getattr(L.lib, name)
        if name == 'g_arr':
            return [v[i] for i in range(4)]
        if name == 'g_pt':
            return [v.x, v.y]
        return v

    def op_readvar(self, k, name):
        L = self.pick(k)
        if L is None:
            return
        if L.closed:
            self.must_raise(L, 'reading variable %s' % name, lambda: self.read_var(L, name))
            if name not in L.touched_vars:
                self.out.probe('variable_never_touched_before_close')
            self.out.probe('read_after_close_refused')
            return
        got = self.read_var(L, name)
        L.touched_vars.add(name)
        if got != self.model[name]:
            raise Violation('C37.1', '%s lib.%s reads %r, expected %r (library open)' % (L.mode, name, got, self.model[name]))

    def op_writevar(self, k, name, v):
        L = self.pick(k)
        if L is None:
            return
        if name == 'g_arr':
            val = [v, v + 1, v + 2, v + 3]
        elif name == 'g_pt':
            val = [v, -v]
        else:
            val = v

        def do():
            if name == 'g_pt':
                setattr(L.lib, name, {'x': val[0], 'y': val[1]})
            else:
                setattr(L.lib, name, val)
        if L.closed:
            before = dict(self.model)
            self.must_raise(L, 'writing variable %s' % name, do)
            self.out.probe('write_after_close_refused')
            # the write must not have reached the (still mapped) library either
            self.verify_memory('after a refused write')
            return
        do()
        L.touched_vars.add(name)
        self.model[name] = val

    def verify_memory(self, where):
        c = self.check.direct
        got = dict(g_int=ctypes.c_int.in_dll(c, 'g_int').value, g_long=ctypes.c_long.in_dll(c, 'g_long').value,
                   g_arr=list((ctypes.c_int * 4).in_dll(c, 'g_arr')),
                   g_pt=list((ctypes.c_int * 2).in_dll(c, 'g_pt')))
        if got != self.model:
            raise Violation('C37.1', 'library memory is %r, model %r (%s)' % (got, self.model, where))

    def op_addressof(self, k, name):
        L = self.pick(k)
        if L is None:
            return
        if L.closed:
            try:
                L.ffi.addressof(L.lib, name)
                self.out.unspec('addressof_after_close_succeeds' + ('_cached' if name in L.addressed else ''))
            except Exception:
                self.out.unspec('addressof_after_close_raises')
            return
        p = L.ffi.addressof(L.lib, name)
        L.addressed.add(name)
        if name in FUNCS:
            L.fetched.add(name)
        if name == 'g_int' and p[0] != self.model['g_int']:
            raise Violation('C37.1', 'addressof(lib, g_int)[0] = %r, expected %r' % (p[0], self.model['g_int']))

    def op_const(self, k):
        L = self.pick(k)
        if L is None:
            return
        try:
            v = (L.lib.K_ONE, L.lib.GREEN)
        except Exception:
            if not L.closed:
                raise Violation('C37.1', 'reading integer constants raised on an open library')
            self.out.unspec('constant_after_close_raises')
            return
        if v != (1, 5):
            raise Violation('C37.1', 'integer constants read %r' % (v,))

    def op_dir(self, k):
        L = self.pick(k)
        if L is None:
            return
        try:
            dir(L.lib)
        except Exception:
            self.out.unspec('dir_raises')

    def op_close(self, k, via=0):
        L = self.pick(k)
        if L is None:
            return
        was = L.closed
        closer = L.ffi
        if via % 10:
            # dlclose() does not need the ffi that opened the library: any ffi of the same mode will do
            if L.mode.startswith('inline'):
                others = [l.ffi for l in self.libs if l.mode.startswith('inline') and l.ffi is not L.ffi]
                closer = others[via % len(others)] if (others and via % 2) else self.check.cffi.FFI()
            else:
                closer = self.check.backend.FFI()
            self.out.probe('closed_through_another_ffi_object')
        failos = False
        if via >= 10 and not was:
            # fault: the operating system reports a failure for this dlclose().  The call may raise; the
            # library object must be closed all the same (its handle has been given to dlclose() once)
            failos = True
            self.check.v_dlclose_fail.value = 1
        try:
            closer.dlclose(L.lib)
        except Exception as e:
            if failos:
                self.check.v_dlclose_fail.value = 0
                self.out.fault('os_dlclose_reports_failure')
                self.out.probe('failing_dlclose_raised')
                L.closed = True
                return
            if was:
                raise Violation('C37.3', 'closing an already closed %s library raised %r' % (L.mode, e))
            raise Violation('C37.3', 'dlclose() of an open %s library raised %r' % (L.mode, e))
        if failos:
            if self.check.v_dlclose_fail.value == 0:
                self.out.fault('os_dlclose_reports_failure')
            self.check.v_dlclose_fail.value = 0
        if was:
            self.out.probe('double_close')
        else:
            self.out.fault('close_event')
            if L.fetched and not L.touched_vars:
                self.out.probe('close_between_fetch_and_first_variable_use')
        L.closed = True

    def op_droplib(self, k):
        if not self.libs:
            return
        L = self.libs.pop(k % len(self.libs))
        if not L.closed:
            self.out.fault('auto_close_by_collection')
        del L
        gc.collect()

    def apply(self, op):
        try:
            self.apply1(op)
        except (Violation, HarnessError):
            raise
        except Exception as e:
            # every access that is expected to raise is caught where it is made; anything that arrives
            # here was raised by an operation on a library object that is OPEN
            closed = sum(1 for l in self.libs if l.closed)
            raise Violation('C37.3', 'operation %r on an open library raised %s: %s (%d other library object(s) '
                            'closed so far: closing one must not affect another)'
                            % (op[:3], type(e).__name__, e, closed))

    def apply1(self, op):
        n = op[0]
        if n == 'open':
            self.op_open(op[1])
        elif n == 'func':
            self.op_func(op[1], op[2], op[3], op[4], op[5])
        elif n == 'readvar':
            self.op_readvar(op[1], op[2])
        elif n == 'writevar':
            self.op_writevar(op[1], op[2], op[3])
        elif n == 'addressof':
            self.op_addressof(op[1], op[2])
        elif n == 'const':
            self.op_const(op[1])
        elif n == 'dir':
            self.op_dir(op[1])
        elif n == 'close':
            self.op_close(op[1], op[2] if len(op) > 2 else 0)
        elif n == 'droplib':
            self.op_droplib(op[1])
        elif n == 'collect':
            gc.collect()
        else:
            raise HarnessError('unknown op %r' % (op,))

    def reset_library(self):
        c = self.check.direct
        ctypes.c_int.in_dll(c, 'g_int').value = 10
        ctypes.c_long.in_dll(c, 'g_long').value = 20
        arr = (ctypes.c_int * 4).in_dll(c, 'g_arr')
        for i in range(4):
            arr[i] = i + 1
        pt = (ctypes.c_int * 2).in_dll(c, 'g_pt')
        pt[0], pt[1] = 5, 6

    def run(self):
        self.reset_library()
        self.check.v_dl_n.value = 0
        for self.opi, op in enumerate(self.case['ops']):
            self.apply(op)
            self.scan_log('after op %d %r' % (self.opi, op))
            self.trace.append((op[0], len(self.libs), sum(1 for l in self.libs if l.closed)))
        self.opi = len(self.case['ops'])
        self.verify_memory('at the end of the run')
        del self.libs[:]
        gc.collect()
        self.scan_log('after dropping every library object')


class C37(core.Check):
    pid = 'C37'
    level = 'exploration'
    engine = 'H'
    quick_runs = 30000
    thorough_budget_s = 900
    chunk = 500
    history_dependent = True     # the generated module's ffi object (its tables and caches) outlives a run
    crash_clause = 'C37.2'
    rule = ('one run = a seeded history of up to 30 operations on up to 3 library objects opened on one compiled '
            'test library in both in-line and out-of-line ABI mode (fetch/call function, read/write int, array '
            'and struct variables, addressof, constants, dir, dlclose, dlclose again, drop+collect); the close '
            'event is injected at an arbitrary point; the backend\'s dlopen/dlsym/dlclose calls are logged by '
            'the build-time shim and the library stays mapped through a reference the harness owns. '
            'non-trivial = at least one access after a close; distinct = distinct digest of the '
            '(op, libs, closed libs) trace')
    components = {
        'real': ['cffi.api FFILibrary / _cffi_backend dl_* (in-line ABI)', 'cdlopen.c / lib_obj.c (out-of-line ABI module '
                 'generated by the cffi under test)', 'a real shared library compiled at check time'],
        'simulated': ['the instant of the close event within the access history; auto-close through an injected GC event'],
        'stub': ['dlopen/dlsym/dlclose are observed (pass-through shim with a log), not replaced'],
    }
    assumptions = ['re-fetching a function that was fetched before the close, addressof() after the close and '
                   'constants after the close are unspecified by the statement and only counted',
                   'function objects and cdata obtained before the close are never used after it']

    def prepare(self, tier):
        self.bdir = build.backend(True)
        self.ldir = build.plain_shared_lib('verifc37', LIBSRC)
        self.libpath = os.path.join(self.ldir, 'libverifc37.so')
        self.hdir = build.helper_module('_verif_c37', CDEF, None, self.bdir, source_none=True)
        build.activate(self.bdir)
        sys.path.insert(0, self.hdir)
        import cffi, _cffi_backend, _verif_c37
        self.cffi = cffi
        self.backend = _cffi_backend
        self.mod = _verif_c37
        self.direct = ctypes.CDLL(self.libpath)       # keeps the library mapped whatever cffi does
        self.shim = ctypes.PyDLL(_cffi_backend.__file__)
        self.v_dl_n = ctypes.c_long.in_dll(self.shim, 'cffi_verif_dl_n')
        self.v_dl_log = (DlEv * 4096).in_dll(self.shim, 'cffi_verif_dl_log')
        self.v_dlclose_fail = ctypes.c_long.in_dll(self.shim, 'cffi_verif_dlclose_fail')

    def generate(self, rng, idx, tier):
        modes = ['inline', 'inline', 'inline2', 'module', 'module', 'inline_handle', 'module_handle']
        ops = [['open', rng.choice(modes)]]
        for _ in range(rng.randint(3, 30)):
            n = rng.weighted([('open', 4), ('func', 22), ('readvar', 18), ('writevar', 12), ('addressof', 6),
                              ('const', 4), ('dir', 2), ('close', 12), ('droplib', 3), ('collect', 2)])
            k = rng.below(1000)
            if n == 'open':
                ops.append(['open', rng.choice(modes)])
            elif n == 'func':
                ops.append(['func', k, rng.choice(FUNCS), rng.randint(-50, 50), rng.randint(-50, 50), rng.chance(0.7)])
            elif n == 'readvar':
                ops.append(['readvar', k, rng.choice(VARS)])
            elif n == 'writevar':
                ops.append(['writevar', k, rng.choice(VARS), rng.randint(-1000, 1000)])
            elif n == 'addressof':
                ops.append(['addressof', k, rng.choice(VARS + FUNCS)])
            elif n == 'close':
                via = rng.randint(1, 4) if rng.chance(0.3) else 0
                if rng.chance(0.12):
                    via += 10          # the OS-level dlclose() reports a failure
                ops.append([n, k, via])
            elif n in ('const', 'dir', 'droplib'):
                ops.append([n, k])
            else:
                ops.append(['collect'])
        return dict(ops=ops, variant=ops[0][1])

    def execute(self, case):
        out = Outcome()
        run = Run(self, case, out)
        with hist.NoGC():
            try:
                run.run()
            except Violation as v:
                out.violate(v.clause, v.detail, run.opi)
            finally:
                del run.libs[:]
                gc.collect()
        out.steps = len(case['ops'])
        out.digest = digest_of(run.trace)
        closed = False
        for op in case['ops']:
            if op[0] == 'close':
                closed = True
            elif closed and op[0] in ('func', 'readvar', 'writevar', 'addressof'):
                out.nontrivial = True
        out.sample = dict(ops=case['ops'][:30])
        return out

    def shrink_candidates(self, case):
        for c in hist.shrink_ops(case):
            if c['ops'] and c['ops'][0][0] == 'open':
                yield c

    def signature(self, case, out):
        return '%s' % (out.clause,)


CHECK = C37()
