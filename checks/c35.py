"""C35 -- pkg-config output is translated to build keywords without loss.
Engine F: cffi.pkgconfig talks to a *fake child process* (cffi.pkgconfig.subprocess is
rebound to a scripted peer that can fail to spawn, exit non-zero, die by signal or emit
undecodable bytes); a slice of the runs uses a real stub executable on PATH."""
import os, sys, errno, subprocess as real_subprocess, shutil, stat
from sim import core, build
from sim.core import Outcome, PRNG, HarnessError, digest_of

KEYS = ['include_dirs', 'library_dirs', 'libraries', 'define_macros', 'extra_compile_args', 'extra_link_args']
WS = [' ', '  ', '\t', '\n', ' \t ', '\n\n', '\r\n', ' \r', '\f', '\v ']
WORDS = ['foo', 'bar', 'usr/include/x', '/opt/lib64', 'glib-2.0', 'z', 'A_B', 'with.dot', 'x86_64-linux-gnu', 'm',
         # names that begin with the letters of the prefixes themselves
         'lzma', 'ldap', 'Include', 'Lib/x', 'l', 'I', '-dash', 'DD']
OTHER_C = ['-pthread', '-Wall', '-std=c99', '-fPIC', '--sysroot=/x', '-mfpu=neon', '-O2', '-isystem', '/sys/inc', '-W']
OTHER_L = ['-pthread', '-Wl,-rpath,/x', '-framework', 'Cocoa', '-rdynamic', '--as-needed', '-static', '-Wl,--no-undefined']


def ref_translate(cflags, libs):
    c = cflags.split()
    l = libs.split()

    def macro(x):
        x = x[2:]
        if '=' in x:
            i = x.index('=')
            return (x[:i], x[i + 1:])
        return (x, None)
    return {
        'include_dirs': [t[2:] for t in c if t.startswith('-I')],
        'library_dirs': [t[2:] for t in l if t.startswith('-L')],
        'libraries': [t[2:] for t in l if t.startswith('-l')],
        'define_macros': [macro(t) for t in c if t.startswith('-D')],
        'extra_compile_args': [t for t in c if not t.startswith('-I') and not t.startswith('-D')],
        'extra_link_args': [t for t in l if not t.startswith('-L') and not t.startswith('-l')],
    }


class FakePopen(object):
    def __init__(self, peer, argv, **kw):
        self.peer = peer
        self.argv = argv
        peer.spawned.append(list(argv))
        if kw.get('stdout') != peer.PIPE or kw.get('stderr') != peer.PIPE:
            peer.notes.append('popen_without_pipes')
        r = peer.lookup(argv)
        if r.get('spawn_errno') is not None:
            raise OSError(r['spawn_errno'], os.strerror(r['spawn_errno']))
        self.r = r
        self.returncode = None

    def communicate(self, input=None, timeout=None):
        self.returncode = self.r['rc']
        return self.r['out'], self.r['err']

    def wait(self, timeout=None):
        self.returncode = self.r['rc']
        return self.returncode

    def poll(self):
        return self.returncode


class FakeSubprocess(object):
    """stands in for the `subprocess` module inside cffi.pkgconfig"""
    PIPE = real_subprocess.PIPE
    STDOUT = real_subprocess.STDOUT
    DEVNULL = real_subprocess.DEVNULL
    CalledProcessError = real_subprocess.CalledProcessError
    TimeoutExpired = real_subprocess.TimeoutExpired

    def __init__(self):
        self.script = {}
        self.spawned = []
        self.notes = []

    def lookup(self, argv):
        if len(argv) < 4 or argv[0] != 'pkg-config':
            self.notes.append('unexpected_argv')
            return dict(rc=1, out=b'', err=b'unexpected argv', spawn_errno=None)
        flag, lib = argv[-2], argv[-1]
        r = self.script.get((flag, lib))
        if r is None:
            return dict(rc=1, out=b'', err=b'Package not found', spawn_errno=None)
        return r

    def Popen(self, argv, **kw):
        return FakePopen(self, argv, **kw)

    # the other usual ways of running a child, in case the code under test is refactored to them
    def run(self, argv, **kw):
        check = kw.pop('check', False)
        if kw.pop('capture_output', False):
            kw['stdout'] = kw['stderr'] = self.PIPE
        kw.pop('timeout', None)
        text = kw.pop('text', None) or kw.pop('universal_newlines', None)
        enc = kw.pop('encoding', None)
        kw.setdefault('stdout', self.PIPE)
        kw.setdefault('stderr', self.PIPE)
        p = FakePopen(self, argv, **kw)
        out, err = p.communicate()
        if text or enc:
            out = out.decode(enc or 'utf-8')
            err = err.decode(enc or 'utf-8')
        if check and p.returncode != 0:
            raise real_subprocess.CalledProcessError(p.returncode, argv, out, err)
        return real_subprocess.CompletedProcess(argv, p.returncode, out, err)

    def check_output(self, argv, **kw):
        kw.pop('stderr', None)
        return self.run(argv, check=True, **kw).stdout

    def call(self, argv, **kw):
        return self.run(argv, **kw).returncode


class C35(core.Check):
    pid = 'C35'
    level = 'exploration'
    engine = 'F'
    quick_runs = 60000
    thorough_budget_s = 600
    chunk = 2000
    rule = ('one run = flags_from_pkgconfig() over 0-4 package names against a scripted fake pkg-config child '
            '(per (package, flag): token sequence over -I -L -l -D[name[=value]] and other flags with arbitrary '
            'whitespace, or a failure: spawn OSError, non-zero exit with decodable/undecodable stderr, death by '
            'signal, undecodable stdout), plus one merge_flags() scenario; compared with a 15-line reference '
            'translator. A slice of runs uses a real stub executable named pkg-config on PATH. non-trivial = '
            'at least one failing response or at least two packages; distinct = digest of the scripted '
            'responses.')
    components = {
        'real': ['cffi.pkgconfig.flags_from_pkgconfig / call / merge_flags'],
        'simulated': ['the pkg-config child process (cffi.pkgconfig.subprocess rebound to a scripted peer)'],
        'stub': ['a real stub executable on PATH for a slice of the runs (validates that the fake behaves like a process)'],
    }
    assumptions = ['outputs containing a backslash are not generated (cffi rejects them by design; the statement is silent)',
                   '-L/-l are only generated in --libs output and -I/-D only in --cflags output']

    def prepare(self, tier):
        self.bdir = build.backend(True)
        build.activate(self.bdir)
        import cffi.pkgconfig, cffi.error
        self.pk = cffi.pkgconfig
        self.PkgConfigError = cffi.error.PkgConfigError
        self.fake = FakeSubprocess()
        self.stubdir = os.path.join(build.CACHE, 'pcstub')
        os.makedirs(self.stubdir, exist_ok=True)
        stub = os.path.join(self.stubdir, 'pkg-config')
        with open(stub + '.tmp%d' % os.getpid(), 'w') as f:
            f.write('#!/bin/sh\n'
                    '# stub pkg-config: args are  --print-errors <flag> <lib>\n'
                    'flag=$(printf %s "$2" | tr -d -)\n'
                    'lib=$(printf %s "$3" | tr -c "A-Za-z0-9" "_")\n'
                    'f="$VERIF_PC_DIR/${flag}_${lib}"\n'
                    'if [ ! -f "$f.rc" ]; then echo "Package $3 was not found" >&2; exit 1; fi\n'
                    'cat "$f.out"\ncat "$f.err" >&2\nrc=$(cat "$f.rc")\n'
                    'if [ "$rc" -lt 0 ]; then kill -9 $$; fi\nexit $rc\n')
        os.chmod(stub + '.tmp%d' % os.getpid(), 0o755)
        os.rename(stub + '.tmp%d' % os.getpid(), stub)

    # ------------------------------------------------------------------
    def gen_tokens(self, rng, which):
        toks = []
        for _ in range(rng.randint(0, 8)):
            r = rng.random()
            if which == 'cflags':
                if r < 0.05:
                    toks.append(rng.choice(['-I', '-D', '-D=5', '-D=', '-I-', '-I=/sysroot/inc', '-DX=-DY=1', '-d', '-i', '-',
                                            '-IDIR=a=b', '-D_X=\'a\'', '-I/\u00e9t\u00e9', '-DCAF\u00c9=\u00fc']))
                elif r < 0.35:
                    toks.append('-I' + rng.choice(['/', '']) + rng.choice(WORDS))
                elif r < 0.7:
                    name = rng.choice(['NDEBUG', 'VERSION', 'X', '_GNU_SOURCE', 'A1', 'DEBUG', 'D', 'DD_D'])
                    k = rng.random()
                    if k < 0.4:
                        toks.append('-D' + name)
                    elif k < 0.8:
                        toks.append('-D%s=%s' % (name, rng.choice(['1', '"str"', 'a=b', 'x=y=z', '', '0x10'])))
                    else:
                        toks.append('-D%s=' % name)
                else:
                    toks.append(rng.choice(OTHER_C))
            else:
                if r < 0.05:
                    toks.append(rng.choice(['-L', '-l', '-l:libfoo.a', '-L-', '-l-', '-L=/x', '-lfoo=bar', '-', '-Wl,-L/x', '-Wl,-lz',
                                            '-l\u00e9', '-L/\u00fc/lib']))
                elif r < 0.3:
                    toks.append('-L' + rng.choice(['/', '']) + rng.choice(WORDS))
                elif r < 0.7:
                    toks.append('-l' + rng.choice(WORDS))
                else:
                    toks.append(rng.choice(OTHER_L))
        if toks and rng.chance(0.15):
            toks.append(toks[0])          # repeated token
        return toks

    def join_ws(self, rng, toks):
        s = rng.choice(['', ' ', '\n']) if rng.chance(0.3) else ''
        for t in toks:
            s += t + rng.choice(WS)
        if rng.chance(0.5):
            s = s.rstrip() + rng.choice(['', '\n', ' \n'])
        return s

    def generate(self, rng, idx, tier):
        nlibs = rng.weighted([(0, 1), (1, 5), (2, 4), (3, 2), (4, 1)])
        libs = []
        for i in range(nlibs):
            name = rng.choice(['libfoo', 'bar', 'glib-2.0', 'libbar >= 1.8.3', 'x11']) + ('%d' % i if rng.chance(0.5) else '')
            if name in libs:
                name += '_%d' % i          # package names are distinct: responses are keyed by (package, flag)
            libs.append(name)
        p_fail = rng.choice([0.0, 0.0, 0.15, 0.4])
        resp = []
        for lib in libs:
            for flag in ('--cflags', '--libs'):
                which = flag[2:]
                if rng.chance(p_fail):
                    kind = rng.choice(['spawn', 'exit', 'exit_bad_stderr', 'signal', 'bad_stdout', 'exit_with_output'])
                    r = dict(lib=lib, flag=flag, kind=kind, rc=0, out='', err='', spawn_errno=None)
                    if kind == 'spawn':
                        r['spawn_errno'] = rng.choice([errno.ENOENT, errno.EACCES, errno.EMFILE, errno.ENOMEM])
                    elif kind == 'exit':
                        r['rc'] = rng.choice([1, 2, 127, 255])
                        r['err'] = "Package %s was not found in the pkg-config search path\n" % lib
                    elif kind == 'exit_with_output':
                        r['rc'] = rng.choice([1, 3, 64])
                        r['out'] = self.join_ws(rng, self.gen_tokens(rng, which) + ['-Ileft', '-lover'])
                        r['err'] = rng.choice(['', 'Package %s has errors\n' % lib])
                    elif kind == 'exit_bad_stderr':
                        r['rc'] = 1
                        r['err_hex'] = 'ff fe 80 50 61 63 6b'
                    elif kind == 'signal':
                        r['rc'] = -9
                    else:
                        r['out_hex'] = '2d 49 2f 78 ff fe 20 2d 44 80'
                    resp.append(r)
                else:
                    toks = self.gen_tokens(rng, which)
                    ok = dict(lib=lib, flag=flag, kind='ok', rc=0, out=self.join_ws(rng, toks), err='',
                              spawn_errno=None, unicode=rng.chance(0.05))
                    if rng.chance(0.12):       # a successful run that prints warnings
                        if rng.chance(0.5):
                            ok['err'] = "Warning: package %s is deprecated\n" % lib
                        else:
                            ok['err_hex'] = 'ff fe 80 77 61 72 6e 0a'
                    resp.append(ok)
        # merge_flags scenario
        m = []
        for _ in range(rng.randint(1, 3)):
            d = {}
            for k in rng.sample(KEYS + ['custom_key'], rng.randint(0, 4)):
                if rng.chance(0.08):
                    d[k] = 'not-a-list'
                else:
                    d[k] = [rng.choice(WORDS) for _ in range(rng.randint(0, 3))]
            m.append(d)
        return dict(libs=libs, resp=resp, merge=m, real=(idx % 400 == 7), variant='real-stub' if idx % 400 == 7 else 'fake-peer')

    # ------------------------------------------------------------------
    @staticmethod
    def resp_bytes(r):
        out = bytes.fromhex(r['out_hex'].replace(' ', '')) if 'out_hex' in r else r['out'].encode('utf-8')
        err = bytes.fromhex(r['err_hex'].replace(' ', '')) if 'err_hex' in r else r['err'].encode('utf-8')
        if r.get('unicode'):
            out = out + ' -I/café'.encode('utf-8') if r['flag'] == '--cflags' else out + ' -lcafé'.encode('utf-8')
        return out, err

    def execute(self, case):
        out = Outcome()
        pk = self.pk
        libs = case['libs']
        # expected result
        expect_fail = None
        expected = {}
        order = []
        for r in case['resp']:
            order.append((r['lib'], r['flag']))
        byq = dict(((r['lib'], r['flag']), r) for r in case['resp'])
        for lib in libs:
            texts = {}
            for flag in ('--cflags', '--libs'):
                r = byq[(lib, flag)]
                if r['kind'] != 'ok':
                    expect_fail = (lib, flag, r['kind'])
                    break
                ob, eb = self.resp_bytes(r)
                texts[flag] = ob.decode('utf-8')
            if expect_fail:
                break
            one = ref_translate(texts['--cflags'], texts['--libs'])
            for k in KEYS:
                if k in expected:
                    expected[k] = expected[k] + one[k]
                else:
                    expected[k] = one[k]
        # run against the fake peer or the real stub
        if case.get('real'):
            got, exc = self.run_real(case)
            out.probe('real_stub_process_runs')
        else:
            fake = self.fake
            fake.script = {}
            fake.spawned = []
            fake.notes = []
            for r in case['resp']:
                ob, eb = self.resp_bytes(r)
                fake.script[(r['flag'], r['lib'])] = dict(rc=r['rc'], out=ob, err=eb, spawn_errno=r['spawn_errno'])
            old = pk.subprocess
            pk.subprocess = fake
            try:
                got, exc = None, None
                try:
                    got = pk.flags_from_pkgconfig(list(libs))
                except BaseException as e:
                    exc = e
            finally:
                pk.subprocess = old
            if fake.notes:
                out.unspec('peer_protocol_' + fake.notes[0])
        if expect_fail is not None:
            out.fault('pkgconfig_' + expect_fail[2])
            if libs.index(expect_fail[0]) > 0:
                out.probe('failure_on_later_package_after_success')
            if expect_fail[1] == '--libs':
                out.probe('failure_on_libs_after_cflags_succeeded')
            if exc is None:
                out.violate('C35.3', 'pkg-config %s %r failed (%s) but flags_from_pkgconfig returned %r'
                            % (expect_fail[1], expect_fail[0], expect_fail[2], got), 0)
            elif not isinstance(exc, self.PkgConfigError):
                out.violate('C35.3', 'pkg-config %s %r failed (%s): raised %s instead of PkgConfigError: %s'
                            % (expect_fail[1], expect_fail[0], expect_fail[2], type(exc).__name__, exc), 0)
        else:
            if exc is not None:
                out.violate('C35.1', 'flags_from_pkgconfig(%r) raised %s: %s although every pkg-config run succeeded'
                            % (libs, type(exc).__name__, exc), 0)
            elif got != expected:
                diff = [k for k in KEYS if got.get(k) != expected.get(k)]
                k = diff[0] if diff else '?'
                out.violate('C35.1', 'flags_from_pkgconfig(%r): keyword %r is %r, reference translator gives %r'
                            % (libs, k, got.get(k), expected.get(k)), 0)
            else:
                if any(byq[(lib, f)].get('err') or byq[(lib, f)].get('err_hex') for lib in libs for f in ('--cflags', '--libs')):
                    out.probe('successful_run_with_warnings_on_stderr')
                if any(x == '' for k in ('include_dirs', 'library_dirs', 'libraries') for x in expected.get(k, [])):
                    out.probe('bare_prefix_token')
                if any('=' in (v or '') for _, v in expected.get('define_macros', [])):
                    out.probe('define_value_containing_equals')
                if len(libs) >= 2:
                    out.probe('multi_package_order')
        # ---- merge_flags ----
        m = [dict((k, list(v) if isinstance(v, list) else v) for k, v in d.items()) for d in case['merge']]
        ref = {}
        want_exc = False
        for d in m:
            for k, v in d.items():
                if k not in ref:
                    ref[k] = list(v) if isinstance(v, list) else v
                else:
                    if not isinstance(ref[k], list) or not isinstance(v, list):
                        want_exc = True
                        break
                    ref[k] = ref[k] + v
            if want_exc:
                break
        acc = {}
        mexc = None
        try:
            for d in m:
                r = pk.merge_flags(acc, dict((k, list(v) if isinstance(v, list) else v) for k, v in d.items()))
                if r is not acc:
                    out.unspec('merge_flags_returns_other_object')
                    acc = r
        except TypeError as e:
            mexc = e
        except Exception as e:
            out.violate('C35.2', 'merge_flags raised %s: %s' % (type(e).__name__, e), 1)
            mexc = e
        if out.verdict == 'ok':
            if want_exc:
                out.fault('merge_non_list_value')
                if mexc is None:
                    out.unspec('merge_flags_accepted_non_list_value')
            elif mexc is not None:
                out.violate('C35.2', 'merge_flags raised %r on list-valued dicts %r' % (mexc, case['merge']), 1)
            elif acc != ref:
                out.violate('C35.2', 'merge_flags(%r) = %r, per-key concatenation in call order is %r'
                            % (case['merge'], acc, ref), 1)
        out.steps = len(case['resp']) + len(case['merge'])
        out.digest = digest_of([case['libs'], [(r['kind'], r.get('out', '')) for r in case['resp']], case['merge']])
        out.nontrivial = expect_fail is not None or len(libs) >= 2
        out.sample = dict(libs=libs, responses=[[r['flag'], r['kind'], r.get('out', '')[:60]] for r in case['resp']][:6])
        return out

    def run_real(self, case):
        d = os.path.join(build.CACHE, 'pcresp-%d' % os.getpid())
        shutil.rmtree(d, ignore_errors=True)
        os.makedirs(d)
        try:
            for r in case['resp']:
                if r['kind'] == 'spawn':
                    continue     # cannot make a real spawn fail for one query only: query simply not found
                ob, eb = self.resp_bytes(r)
                lib = ''.join(ch if ch.isalnum() else '_' for ch in r['lib'])
                base = os.path.join(d, '%s_%s' % (r['flag'].replace('-', ''), lib))
                with open(base + '.out', 'wb') as f:
                    f.write(ob)
                with open(base + '.err', 'wb') as f:
                    f.write(eb)
                with open(base + '.rc', 'w') as f:
                    f.write(str(r['rc']))
            oldpath = os.environ.get('PATH', '')
            os.environ['PATH'] = self.stubdir + os.pathsep + oldpath
            os.environ['VERIF_PC_DIR'] = d
            try:
                try:
                    return self.pk.flags_from_pkgconfig(list(case['libs'])), None
                except BaseException as e:
                    return None, e
            finally:
                os.environ['PATH'] = oldpath
        finally:
            shutil.rmtree(d, ignore_errors=True)

    def shrink_candidates(self, case):
        libs = case['libs']
        for i in range(len(libs)):
            nl = libs[:i] + libs[i + 1:]
            yield dict(case, libs=nl, resp=[r for r in case['resp'] if r['lib'] in nl])
        for i, r in enumerate(case['resp']):
            if r['kind'] == 'ok' and r['out'].split():
                toks = r['out'].split()
                for j in range(len(toks)):
                    nr = dict(r, out=' '.join(toks[:j] + toks[j + 1:]))
                    yield dict(case, resp=case['resp'][:i] + [nr] + case['resp'][i + 1:])
        if case['merge']:
            yield dict(case, merge=[])
        if case.get('real'):
            yield dict(case, real=False)

    def signature(self, case, out):
        return '%s' % (out.clause,)


CHECK = C35()
