"""C29 -- callback closures stay distinct and bound to their own function (engine H)."""
import os, sys, gc, io, weakref, ctypes
from sim import core, build, hist
from sim.core import Outcome, PRNG, HarnessError, digest_of

CDEF = """
int call_i_i(int (*cb)(int), int x);
long call_l_ll(long (*cb)(long, long), long x, long y);
double call_d_d(double (*cb)(double), double x);
int call_i_iii(int (*cb)(int, int, int), int x, int y, int z);
void call_v_p(void (*cb)(int *), int *p);
short call_h_c(short (*cb)(char), char c);
typedef struct { signed char a; short b; } spt_t;
int call_s_i(spt_t (*cb)(int), int x);
int call_i_b(int (*cb)(_Bool), int raw);
int call_raw_i_i(uintptr_t addr, int x);
"""
SRC = """
int call_i_i(int (*cb)(int), int x) { return cb(x); }
long call_l_ll(long (*cb)(long, long), long x, long y) { return cb(x, y); }
double call_d_d(double (*cb)(double), double x) { return cb(x); }
int call_i_iii(int (*cb)(int, int, int), int x, int y, int z) { return cb(x, y, z); }
void call_v_p(void (*cb)(int *), int *p) { cb(p); }
short call_h_c(short (*cb)(char), char c) { return cb(c); }
typedef struct { signed char a; short b; } spt_t;
int call_s_i(spt_t (*cb)(int), int x) { spt_t r = cb(x); return r.a * 100000 + r.b; }
/* passes the raw byte as the _Bool argument: 0 and 1 are valid, anything else cannot be decoded */
int call_i_b(int (*cb)(_Bool), int raw) { return ((int (*)(unsigned char))cb)((unsigned char)raw); }
/* enters a callback through its bare address (no Python object is involved in the call) */
int call_raw_i_i(uintptr_t addr, int x) { return ((int (*)(int))addr)(x); }
"""
SIGS = {
    'i_i': 'int(*)(int)', 'l_ll': 'long(*)(long, long)', 'd_d': 'double(*)(double)',
    'i_iii': 'int(*)(int, int, int)', 'v_p': 'void(*)(int *)', 'h_c': 'short(*)(char)',
    's_i': 'spt_t(*)(int)', 'i_b': 'int(*)(_Bool)',
}

# signatures with many arguments (more than a handful; more than fit a small on-stack vector)
def _many(name, types, res):
    params = ', '.join(types)
    call = ', '.join('(%s)(x + %d)' % (t, j) for j, t in enumerate(types))
    decl = '%s call_%s(%s (*cb)(%s), int x);\n' % (res, name, res, params)
    body = '%s call_%s(%s (*cb)(%s), int x) { return cb(%s); }\n' % (res, name, res, params, call)
    return decl, body, '%s(*)(%s)' % (res, params)


M12 = ['int', 'double', 'long long', 'short', 'double', 'int', 'unsigned char', 'long', 'double', 'int', 'int', 'double']
MANY = {'i_i9': (['int'] * 9, 'int'), 'i_i20': (['int'] * 20, 'int'), 'd_m12': (M12, 'double'),
        'i_i70': (['int'] * 70, 'int')}
for _n in sorted(MANY):
    _d, _b, _t = _many(_n, *MANY[_n])
    CDEF += _d
    SRC += _b
    SIGS[_n] = _t
SIGNAMES = sorted(SIGS)
VARIADIC = 'int(*)(int, ...)'


class Violation(Exception):
    def __init__(self, clause, detail):
        self.clause = clause
        self.detail = detail


class Entry(object):
    __slots__ = ('cb', 'serial', 'sig', 'addr', 'raises', 'state', '__weakref__')


class Run(object):
    def __init__(self, check, case, out):
        self.check = check
        self.case = case
        self.out = out
        self.mod = check.mod
        self.lib = check.mod.lib
        self.mffi = check.mod.ffi
        self.iffi = check.iffi
        self.slots = []           # Entry objects
        self.addrs = {}           # address -> serial of the live callback that owns it
        self.serial = 0
        self.trace = []
        self.opi = 0
        self.gv = None
        self.rng = PRNG(case['sample_seed'])
        self.reused = 0
        self.dead_addrs = set()
        self.wrs = {}
        self.fresh = []

    # ---- creation ----
    def expected(self, e, args):
        s = e.serial
        if e.raises:
            if e.sig in MANY:
                return -7.0 if e.sig == 'd_m12' else -7
            return {'i_i': -7, 'l_ll': -7, 'd_d': -7.0, 'i_iii': -7, 'h_c': -7, 's_i': (0, 0), 'i_b': -7}.get(e.sig)
        if e.sig == 'd_m12':
            return float(s) + sum(float(a) * (j + 1) for j, a in enumerate(args))
        if e.sig in MANY:
            return (s + sum(a * (j + 1) for j, a in enumerate(args))) % 1000003
        if e.sig == 'i_i':
            return (s * 31 + args[0]) % 1000003
        if e.sig == 'l_ll':
            return s * 1000003 + args[0] * 7 - args[1]
        if e.sig == 'd_d':
            return s + args[0] * 0.5
        if e.sig == 'i_iii':
            return (s + args[0] + 2 * args[1] + 3 * args[2]) % 1000003
        if e.sig == 'h_c':
            return (s + ord(args[0])) % 30000
        if e.sig == 's_i':
            return ((s + args[0]) % 100, (s * 7 + args[0]) % 30000)
        if e.sig == 'i_b':
            return (s * 3 + (1 if args[0] else 0)) % 1000003
        return None

    def make_fn(self, e):
        st = e.state = dict(calls=0, last=None)
        run = self
        sig = e.sig
        serial = e.serial
        raises = e.raises

        if sig == 'v_p':
            def fn(p):
                st['calls'] += 1
                st['last'] = (1,)
                p[0] = (serial * 17 + p[0]) % 1000003
        else:
            def fn(*args):
                st['calls'] += 1
                st['last'] = args
                if raises:
                    raise RuntimeError('injected callback failure')
                return run.expected_for(serial, sig, args)
        return fn

    def expected_for(self, serial, sig, args):
        e = Entry()
        e.serial, e.sig, e.raises = serial, sig, False
        return self.expected(e, args)

    def create(self, sig, flavour, raises=False, cyc=False):
        self.serial += 1
        e = Entry()
        e.serial = self.serial
        e.sig = sig
        e.raises = raises and sig != 'v_p'
        fn = self.make_fn(e)
        if sig == 's_i':
            flavour = 'module'        # struct types are per-FFI: the callback type must be the module's
        ffi = self.mffi if flavour == 'module' else self.iffi
        kw = {}
        if e.raises and sig != 's_i':
            kw['error'] = -7
        before_fail = self.check.shim_mmap_failed()
        try:
            cb = ffi.callback(SIGS[sig], fn, **kw)
        except MemoryError:
            if self.check.shim_mmap_failed() > before_fail:
                self.out.fault('mmap_failed_MemoryError')
                return None
            raise Violation('C29.2', 'ffi.callback() raised MemoryError although no mmap failure was injected')
        e.cb = cb
        e.state['fn'] = fn
        e.state['flavour'] = flavour
        e.addr = int(self.iffi.cast('uintptr_t', cb))
        owner = self.addrs.get(e.addr)
        if owner is not None:
            raise Violation('C29.1', 'new callback #%d got address %#x which still belongs to live callback #%d'
                            % (e.serial, e.addr, owner))
        if e.addr in self.dead_addrs:
            self.reused += 1
            self.out.probe('closure_address_reused')
        self.addrs[e.addr] = e.serial
        addrs = self.addrs
        dead = self.dead_addrs
        addr = e.addr
        serial = e.serial

        wrs = self.wrs

        def gone(_):
            wrs.pop(serial, None)
            if addrs.get(addr) == serial:
                del addrs[addr]
                dead.add(addr)
        # the weak reference lives in the run, not in the callback's own object graph:
        # a weak reference that is itself garbage never fires its callback
        wrs[serial] = weakref.ref(cb, gone)
        if cyc:
            fn.myself = cb          # callback <-> its own Python function
            self.out.probe('callback_in_cycle_with_own_function')
        if e.raises:
            self.out.fault('callback_body_raises_armed')
        return e

    def clone(self, src):
        """another callback on the same Python function, ctype and error value as 'src'"""
        fn = src.state.get('fn')
        if fn is None:
            return None
        e = Entry()
        e.serial, e.sig, e.raises, e.state = src.serial, src.sig, src.raises, src.state
        ffi = self.mffi if (src.sig == 's_i' or src.state.get('flavour') == 'module') else self.iffi
        kw = {}
        if e.raises and e.sig != 's_i':
            kw['error'] = -7
        try:
            cb = ffi.callback(SIGS[e.sig], fn, **kw)
        except MemoryError:
            return None
        e.cb = cb
        e.addr = int(self.iffi.cast('uintptr_t', cb))
        owner = self.addrs.get(e.addr)
        if owner is not None:
            raise Violation('C29.1', 'a new callback got address %#x which still belongs to live callback #%d'
                            % (e.addr, owner))
        self.serial += 1
        key = self.serial            # bookkeeping key only; the function's own serial stays src.serial
        self.addrs[e.addr] = key
        addrs, dead, addr, wrs = self.addrs, self.dead_addrs, e.addr, self.wrs

        def gone(_):
            wrs.pop(key, None)
            if addrs.get(addr) == key:
                del addrs[addr]
                dead.add(addr)
        wrs[key] = weakref.ref(cb, gone)
        return e

    # ---- calling ----
    def call(self, e, via, x):
        st = e.state
        n0 = st['calls']
        totals = self.total_calls()
        sig = e.sig
        lib = self.lib
        if sig == 'i_i':
            args = (x % 1000,)
            got = lib.call_i_i(e.cb, *args) if via == 'C' else e.cb(*args)
        elif sig == 'l_ll':
            args = (x, x // 3)
            got = lib.call_l_ll(e.cb, *args) if via == 'C' else e.cb(*args)
        elif sig == 'd_d':
            args = (float(x),)
            got = lib.call_d_d(e.cb, *args) if via == 'C' else e.cb(*args)
        elif sig == 'i_iii':
            args = (x % 100, x % 7, x % 13)
            got = lib.call_i_iii(e.cb, *args) if via == 'C' else e.cb(*args)
        elif sig == 'h_c':
            args = (bytes([65 + x % 26]),)
            got = lib.call_h_c(e.cb, *args) if via == 'C' else e.cb(*args)
        elif sig == 'i_b':
            args = (bool(x % 2),)
            got = lib.call_i_b(e.cb, x % 2) if via == 'C' else e.cb(*args)
        elif sig in MANY:
            types = MANY[sig][0]
            args = tuple((float(x % 50 + j) if t == 'double' else x % 50 + j) for j, t in enumerate(types))
            got = getattr(lib, 'call_' + sig)(e.cb, x % 50) if via == 'C' else e.cb(*args)
            self.out.probe('callback_with_%d_arguments' % len(types))
        elif sig == 's_i':
            args = (x % 1000,)
            if via == 'C':
                v = lib.call_s_i(e.cb, *args)
                b = ((v + 20000) % 100000) - 20000
                got = ((v - b) // 100000, b)
            else:
                r = e.cb(*args)
                got = (r.a, r.b)
        else:
            p = self.iffi.new('int *', x % 1000)
            if via == 'C':
                lib.call_v_p(e.cb, p)
            else:
                e.cb(p)
            got = p[0]
            want = (e.serial * 17 + x % 1000) % 1000003
            args = (1,)
            if st['calls'] != n0 + 1 or got != want:
                raise Violation('C29.2', 'callback #%d (%s) called %s: its own function ran %d time(s), *p = %r, '
                                'expected %r' % (e.serial, sig, via, st['calls'] - n0, got, want))
            self.check_only_one_ran(totals, e)
            return
        want = self.expected(e, args)
        if st['calls'] != n0 + 1:
            raise Violation('C29.2', 'callback #%d (%s) called %s: its own Python function ran %d time(s)'
                            % (e.serial, sig, via, st['calls'] - n0))
        if st['last'] != args:
            raise Violation('C29.2', 'callback #%d (%s): function received %r, expected %r'
                            % (e.serial, sig, st['last'], args))
        if got != want:
            raise Violation('C29.2', 'callback #%d (%s) called %s returned %r, expected %r'
                            % (e.serial, sig, via, got, want))
        self.check_only_one_ran(totals, e)

    def total_calls(self):
        return self.check.total_calls[0]

    def check_only_one_ran(self, before, e):
        pass

    def call_sample(self, all_limit=200):
        n = len(self.slots)
        if n == 0:
            return
        if n <= all_limit:
            idxs = range(n)
        else:
            idxs = [self.rng.below(n) for _ in range(all_limit)]
        for i in idxs:
            self.call(self.slots[i], 'C' if (i % 2 == 0) else 'cdata', i * 13 + self.opi)

    # ---- ops ----
    def apply(self, op, gremlin=False):
        name = op[0]
        if name == 'create':
            e = self.create(op[1], op[2], raises=op[3], cyc=op[4])
            if e is not None:
                self.slots.append(e)
        elif name == 'badarg':
            # fault: C passes an argument that cannot be decoded (a _Bool byte that is neither 0 nor 1).
            # The callback's own function must not run, its error value comes back, and every live
            # callback -- this one included -- stays bound to its own function afterwards.
            c = [e for e in self.slots if e.sig == 'i_b']
            if c:
                e = c[op[1] % len(c)]
                n0 = e.state['calls']
                got = self.lib.call_i_b(e.cb, 2 + op[1] % 200)
                self.out.fault('undecodable_argument_from_C')
                if e.state['calls'] != n0:
                    self.out.unspec('function_ran_on_undecodable_argument')
                want = -7 if e.raises else 0
                if got != want:
                    self.out.unspec('undecodable_argument_result_%r' % (got,))
                for _ in range(2):
                    ne = self.create(SIGNAMES[(op[1] + _) % len(SIGNAMES)], 'inline')
                    if ne is not None:
                        self.slots.append(ne)
                self.call(e, 'C', op[1])
                self.call(e, 'cdata', op[1] + 1)
        elif name == 'selfreplace':
            self.op_selfreplace(op[1])
        elif name == 'ephemeral':
            if not gremlin:
                self.op_ephemeral(op[1])
        elif name == 'deldrop':
            self.op_deldrop(op[1], op[2] if len(op) > 2 else 0)
        elif name == 'clone':
            if self.slots:
                src = self.slots[op[1] % len(self.slots)]
                e = self.clone(src)
                if e is not None:
                    self.slots.append(e)
                    self.out.probe('two_callbacks_share_one_function')
        elif name == 'call':
            if self.slots:
                self.call(self.slots[op[1] % len(self.slots)], op[2], op[3])
        elif name == 'drop':
            if self.slots:
                del self.slots[op[1] % len(self.slots)]
        elif name == 'bulk':
            n = op[1]
            made = 0
            for i in range(n):
                e = self.create(op[2], op[3])
                if e is not None:
                    self.slots.append(e)
                    made += 1
            if len(self.slots) >= 1000:
                self.out.probe('over_1000_live_callbacks')
            if len(self.slots) >= 4000:
                self.out.probe('over_4000_live_callbacks')
            if len(self.slots) >= 20000:
                self.out.probe('over_20000_live_callbacks')
            self.call_sample()
        elif name == 'bulkdrop':
            r = PRNG(op[1])
            keep = op[2]
            self.slots[:] = [e for e in self.slots if r.random() < keep]
            self.call_sample()
        elif name == 'failcreate':
            before = len(self.addrs)
            try:
                cb = self.iffi.callback(VARIADIC, lambda *a: 0)
            except NotImplementedError:
                self.out.fault('creation_fails_after_closure_taken')
            except Exception as e:
                self.out.unspec('variadic_callback_raises_' + type(e).__name__)
            else:
                self.out.unspec('variadic_callback_accepted')
                del cb
            for bad in ((SIGS['i_i'], 42, {}), (SIGS['i_i'], (lambda x: x), {'error': 'notanint'}),
                        (SIGS['h_c'], (lambda c: 0), {'error': 10 ** 9})):
                before_fail = self.check.shim_mmap_failed()
                try:
                    cb = self.iffi.callback(bad[0], bad[1], **bad[2])
                except (TypeError, OverflowError):
                    self.out.fault('creation_rejected_bad_callable_or_error_value')
                except MemoryError:
                    if self.check.shim_mmap_failed() == before_fail:
                        raise Violation('C29.2', 'ffi.callback() raised MemoryError although no mmap failure was injected')
                    self.out.fault('mmap_failed_MemoryError')
                else:
                    self.out.unspec('bad_callback_arguments_accepted')
                    del cb
            # the free list must be intact: the next two callbacks are distinct and work
            for _ in range(2):
                e = self.create('i_i', 'inline')
                if e is not None:
                    self.slots.append(e)
                    self.call(e, 'C', 5)
        elif name == 'mmapfail':
            self.check.shim_arm_mmap_fail(op[1])
            self.out.fault('mmap_fail_armed')
        elif name == 'collect':
            if not gremlin:
                gc.collect()
                self.call_sample(60)
        elif name == 'gremlin':
            if not gremlin:
                self.op_gremlin(op[1])
        else:
            raise HarnessError('unknown op %r' % (op,))

    def op_selfreplace(self, x):
        """a callback that, while it runs (entered through its bare address), drops the last reference to
        itself, creates a replacement with another error value, and raises: the value C gets back must
        be its OWN error value"""
        run = self
        st = dict(calls=0)
        holder = []

        def fn(v):
            st['calls'] += 1
            del holder[:]                       # the last reference to this callback's cdata
            ne = run.create('i_i', 'inline')
            if ne is not None:
                run.slots.append(ne)
            raise RuntimeError('injected failure after self-replacement')
        before_fail = self.check.shim_mmap_failed()
        try:
            cb = self.iffi.callback(SIGS['i_i'], fn, error=-11)
        except MemoryError:
            if self.check.shim_mmap_failed() > before_fail:
                self.out.fault('mmap_failed_MemoryError')       # the injected mmap failure hit this creation
                return
            raise Violation('C29.2', 'ffi.callback() raised MemoryError although no mmap failure was injected')
        addr = int(self.iffi.cast('uintptr_t', cb))
        if addr in self.addrs:
            raise Violation('C29.1', 'new callback got address %#x which still belongs to a live callback' % addr)
        holder.append(cb)
        del cb
        got = self.lib.call_raw_i_i(addr, x % 1000)
        self.out.fault('callback_drops_itself_while_running')
        if st['calls'] != 1:
            raise Violation('C29.2', 'a callback entered through its address ran its function %d times' % st['calls'])
        if got != -11:
            raise Violation('C29.2', 'a callback that raised returned %d, its own error value is -11' % got)

    def guarded_callback(self, ffi, sig, fn, **kw):
        """ffi.callback() that may be hit by the injected mmap failure: returns None then"""
        before_fail = self.check.shim_mmap_failed()
        try:
            return ffi.callback(sig, fn, **kw)
        except MemoryError:
            if self.check.shim_mmap_failed() > before_fail:
                self.out.fault('mmap_failed_MemoryError')
                return None
            raise Violation('C29.2', 'ffi.callback() raised MemoryError although no mmap failure was injected')

    def op_ephemeral(self, r):
        """callbacks made through throw-away FFI objects: the function ctype (and the libffi call
        description inside it) dies with them; the next callback has another signature with the same
        number of arguments, now floating-point ones"""
        n = 2 + r % 3
        st = {'got': None}

        def fi(*a):
            st['got'] = a
            return 7

        def fd(*a):
            st['got'] = a
            return 0.25
        f1 = self.check.cffi.FFI()
        cb = self.guarded_callback(f1, 'short(*)(%s)' % ', '.join(['short'] * n), fi)
        if cb is None:
            return
        addr = int(f1.cast('uintptr_t', cb))
        if addr in self.addrs:
            raise Violation('C29.1', 'new callback got address %#x which still belongs to a live callback' % addr)
        args = tuple(range(1, n + 1))
        if cb(*args) != 7 or st['got'] != args:
            raise Violation('C29.2', 'a callback of signature short(*)(%d x short) received %r' % (n, st['got']))
        del cb, f1
        gc.collect()
        f2 = self.check.cffi.FFI()
        cb2 = self.guarded_callback(f2, 'double(*)(%s)' % ', '.join(['double'] * n), fd)
        if cb2 is None:
            return
        addr = int(f2.cast('uintptr_t', cb2))
        if addr in self.addrs:
            raise Violation('C29.1', 'new callback got address %#x which still belongs to a live callback' % addr)
        dargs = tuple(0.5 + i for i in range(n))
        st['got'] = None
        res = cb2(*dargs)
        if st['got'] != dargs or res != 0.25:
            raise Violation('C29.2', 'a callback of signature double(*)(%d x double), created after a callback of '
                            'another signature and its function type had been freed, received %r and returned %r '
                            '(called with %r, its function returns 0.25)' % (n, st['got'], res, dargs))
        del cb2, f2
        gc.collect()
        self.out.probe('callback_after_its_predecessors_function_type_was_freed')
        self.call_sample(20)

    def op_deldrop(self, n, collect=0):
        """a callback whose Python function owns an object with __del__ that creates callbacks: they are
        created in the middle of the deallocation of the first one.  With `collect`, that __del__ also runs
        a garbage collection (before and/or after creating them): a collection in the middle of the
        deallocation of a callback"""
        run = self

        class OnDel(object):
            def __del__(self):
                try:
                    if collect & 1:
                        gc.collect()
                        run.out.fault('collection_during_a_callback_deallocation')
                    for i in range(n):
                        ne = run.create(SIGNAMES[i % len(SIGNAMES)], 'inline')
                        if ne is not None:
                            run.slots.append(ne)
                            run.fresh.append(ne)
                    run.out.fault('callbacks_created_during_a_callback_deallocation')
                    if collect & 2:
                        gc.collect()
                        run.out.fault('collection_during_a_callback_deallocation')
                except Violation as v:
                    run.gv = v

        e = self.create('i_i', 'inline')
        if e is None:
            return
        e.state['fn'].ondel = OnDel()
        e.state.pop('fn', None)
        self.call(e, 'C', 3)
        del e.cb
        del e
        # the callbacks made by __del__ must be fully functional
        fresh, self.fresh = self.fresh, []
        for ne in fresh:
            if 'calling' not in repr(ne.cb):
                raise Violation('C29.2', 'a live callback lost its Python function: %r' % (ne.cb,))
            self.call(ne, 'C', 7)

    def op_gremlin(self, n):
        run = self

        class Gremlin(object):
            def __del__(self):
                try:
                    for i in range(n):
                        e = run.create(SIGNAMES[i % len(SIGNAMES)], 'inline')
                        if e is not None:
                            run.slots.append(e)
                    run.out.fault('gremlin_created_callbacks_during_collection')
                except Violation as v:
                    run.gv = v

        g = Gremlin()
        c = [g]
        c.append(c)
        del g, c

    def run(self):
        every = self.case['regime'] == 'every'
        for self.opi, op in enumerate(self.case['ops']):
            self.apply(op)
            if every and op[0] not in ('collect', 'bulk', 'bulkdrop'):
                gc.collect()
            if self.gv is not None:
                raise self.gv
            self.trace.append((op[0], len(self.slots), len(self.addrs)))
        self.opi = len(self.case['ops'])
        gc.collect()
        self.call_sample(400)
        if len(self.addrs) < len(self.slots):
            raise Violation('C29.1', '%d live callbacks share addresses' % (len(self.slots) - len(self.addrs)))


class C29(core.Check):
    pid = 'C29'
    level = 'exploration'
    engine = 'H'
    quick_runs = 4000
    thorough_budget_s = 900
    chunk = 25
    history_dependent = True     # the closure free list is process state shared by the runs of a worker
    crash_clause = 'C29.2'
    env = {'MALLOC_PERTURB_': '221', 'PYTHONMALLOC': 'malloc'}
    rule = ('one run = a seeded history of up to 80 operations (create a callback with one of 6 signatures, call '
            'one from C or through the cdata, drop, put in a cycle with its own function, bulk-create up to '
            '5000 so that several closure-page growth steps are crossed, bulk-drop a seeded subset, attempt a '
            'creation that fails after the closure was taken, arm an mmap failure, collect, gremlin creating '
            'callbacks during collection); addresses of live callbacks are tracked through weak references and '
            'must be pairwise distinct; every call must run exactly the callback\'s own function with its own '
            'arguments. non-trivial = at least one drop/bulk-drop/failure followed by a creation; distinct = '
            'distinct digest of the (op, live callbacks, live addresses) trace')
    components = {
        'real': ['_cffi_backend b_callback / malloc_closure.h free list / more_core (private sim build)', 'libffi closures',
                 'helper extension module generated and compiled from the cffi under test (calls callbacks from C)'],
        'simulated': ['instants of garbage collection and drops', 'mmap failure at a chosen growth step (shim)',
                      'finalizer re-entrancy'],
        'stub': [],
    }
    assumptions = ['only live callbacks are invoked']

    def prepare(self, tier):
        self.bdir = build.backend(True)
        self.hdir = build.helper_module('_verif_c29', CDEF, SRC, self.bdir)
        build.activate(self.bdir)
        sys.path.insert(0, self.hdir)
        import cffi, _cffi_backend, _verif_c29
        self.mod = _verif_c29
        self.cffi = cffi
        self.iffi = cffi.FFI()
        self.total_calls = [0]
        self.shim = ctypes.PyDLL(_cffi_backend.__file__)
        self.v_calls = ctypes.c_long.in_dll(self.shim, 'cffi_verif_mmap_calls')
        self.v_fail_at = ctypes.c_long.in_dll(self.shim, 'cffi_verif_mmap_fail_at')
        self.v_fail_n = ctypes.c_long.in_dll(self.shim, 'cffi_verif_mmap_fail_n')
        self.v_failed = ctypes.c_long.in_dll(self.shim, 'cffi_verif_mmap_failed')

    def shim_mmap_failed(self):
        return self.v_failed.value

    def shim_arm_mmap_fail(self, n):
        self.v_fail_at.value = self.v_calls.value      # the very next growth step fails
        self.v_fail_n.value = n

    def generate(self, rng, idx, tier):
        ops = []
        big = rng.chance(0.12)
        huge = (idx % 197 == 13)       # a few runs keep tens of thousands alive: many growth steps of the pool
        if huge:
            ops.append(['bulk', 24000, rng.choice(SIGNAMES), 'inline'])
            ops.append(['bulkdrop', rng.u64(), 0.5])
            ops.append(['bulk', 14000, rng.choice(SIGNAMES), 'module'])
        for _ in range(rng.randint(5, 80)):
            name = rng.weighted([('create', 25), ('clone', 5), ('badarg', 3), ('selfreplace', 2), ('deldrop', 2), ('ephemeral', 2), ('call', 20), ('drop', 18), ('bulk', 4), ('bulkdrop', 4),
                                 ('failcreate', 4), ('mmapfail', 2), ('collect', 6), ('gremlin', 2)])
            if name == 'create':
                ops.append(['create', rng.choice(SIGNAMES), rng.choice(['module', 'inline']),
                            rng.chance(0.1), rng.chance(0.2)])
            elif name == 'call':
                ops.append(['call', rng.below(100000), rng.choice(['C', 'cdata']), rng.below(100000)])
            elif name in ('drop', 'clone', 'badarg', 'selfreplace'):
                ops.append([name, rng.below(100000)])
            elif name == 'ephemeral':
                ops.append(['ephemeral', rng.below(1000)])
            elif name == 'deldrop':
                ops.append(['deldrop', rng.randint(0, 4), rng.below(4)])
            elif name == 'bulk':
                n = rng.choice([500, 1500, 3000, 5000]) if big else rng.choice([10, 80, 200])
                ops.append(['bulk', n, rng.choice(SIGNAMES), rng.choice(['module', 'inline'])])
            elif name == 'bulkdrop':
                ops.append(['bulkdrop', rng.u64(), rng.choice([0.0, 0.1, 0.5, 0.9])])
            elif name == 'mmapfail':
                ops.append(['mmapfail', rng.randint(1, 2)])
                if rng.chance(0.7):     # place the fault inside an operation that needs to grow
                    ops.append(['bulk', rng.choice([100, 400, 1200]), rng.choice(SIGNAMES), 'inline'])
            elif name == 'gremlin':
                ops.append(['gremlin', rng.randint(1, 6)])
            else:
                ops.append([name])
        regime = rng.choice(['every', 'sparse'])
        return dict(ops=ops, regime=regime, sample_seed=rng.u64(), variant=regime + ('/big' if big else ''))

    def execute(self, case):
        out = Outcome()
        run = Run(self, case, out)
        self.v_fail_at.value = -1
        calls0 = self.v_calls.value
        err = io.StringIO()
        olderr = sys.stderr
        sys.stderr = err
        try:
            with hist.NoGC():
                try:
                    run.run()
                except Violation as v:
                    out.violate(v.clause, v.detail, run.opi)
                except (HarnessError, MemoryError):
                    raise
                except Exception as e:
                    out.violate('C29.2', hist.unexpected(e, (case['ops'][run.opi:run.opi + 1] or [None])[0]), run.opi)
                finally:
                    del run.slots[:]
                    gc.collect()
        finally:
            sys.stderr = olderr
            self.v_fail_at.value = -1
        out.steps = len(case['ops'])
        out.digest = digest_of([case['regime'], run.trace])
        seen = False
        for op in case['ops']:
            if op[0] in ('drop', 'bulkdrop', 'failcreate', 'mmapfail'):
                seen = True
            elif op[0] in ('create', 'bulk') and seen:
                out.nontrivial = True
        out.probe('mmap_growth_steps', self.v_calls.value - calls0)
        if self.v_calls.value - calls0 >= 3:
            out.probe('runs_with_3_or_more_growth_steps')
        if case['regime'] == 'every':
            out.fault('gc_after_every_op', len(case['ops']))
        out.sample = dict(regime=case['regime'], ops=case['ops'][:25])
        return out

    def shrink_candidates(self, case):
        for c in hist.shrink_ops(case):
            yield c
        for i, op in enumerate(case['ops']):
            if op[0] == 'bulk' and op[1] > 10:
                ops = list(case['ops'])
                ops[i] = ['bulk', max(10, op[1] // 2)] + op[2:]
                yield dict(case, ops=ops)
        if case['regime'] == 'every':
            yield dict(case, regime='sparse')

    def signature(self, case, out):
        return '%s' % (out.clause,)


CHECK = C29()
