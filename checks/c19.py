"""C19 -- buffers, from_buffer and memmove match a byte-array model (engine H: history
refinement over aliased views of cdata / bytearray / array.array memory; injected
"faults" are refusing exporters, wrong-length assignments and dropping + collecting the
cdata behind a live view).  Weakest fit for simulation: no scheduler."""
import os, sys, gc, struct, array
from sim import core, build, hist
from sim.core import Outcome, PRNG, HarnessError, digest_of

ELEM = {'char': ('char', 'c', 1), 'uchar': ('unsigned char', 'B', 1), 'short': ('short', 'h', 2),
        'int': ('int', 'i', 4), 'long': ('long', 'q', 8)}
ENAMES = sorted(ELEM)


class Violation(Exception):
    def __init__(self, clause, detail):
        self.clause = clause
        self.detail = detail


class Run(object):
    def __init__(self, check, case, out):
        self.ffi = check.ffi
        self.case = case
        self.out = out
        self.stores = []      # dict(kind, obj (owner or None), model, views=[...])
        self.views = []       # dict(kind: 'buf'|'fb', obj, s (store idx), off, n (bytes), elem (for fb), ro)
        self.opi = 0
        self.trace = []

    # ---- observation ----
    def store_bytes(self, si):
        s = self.stores[si]
        if s['kind'] == 'cdata':
            if s['obj'] is not None:
                return bytes(self.ffi.buffer(s['obj']))
            for v in self.views:
                if v['s'] == si and v['kind'] == 'buf' and v['off'] == 0 and v['n'] == len(s['model']):
                    return v['obj'][:]
            return None
        if s['kind'] == 'ba':
            return bytes(s['obj'])
        return s['obj'].tobytes()

    def check_memory(self, where, clause):
        for si in range(len(self.stores)):
            got = self.store_bytes(si)
            if got is None:
                continue
            m = bytes(self.stores[si]['model'])
            if got != m:
                i = next(k for k in range(min(len(got), len(m))) if got[k] != m[k]) if len(got) == len(m) else -1
                raise Violation(clause, 'store %d (%s, %d bytes): byte %d is %s, model says %s (%s)'
                                % (si, self.stores[si]['kind'], len(m), i,
                                   got[i:i + 1].hex() if i >= 0 else 'len %d' % len(got),
                                   m[i:i + 1].hex() if i >= 0 else 'len %d' % len(m), where))

    # ---- ops ----
    def op_store(self, kind, n, r):
        if kind == 'cdata':
            obj = self.ffi.new('unsigned char[]', n)
        elif kind == 'ba':
            obj = bytearray(n)
        else:
            n = n - n % 4
            obj = array.array('i', [0] * (n // 4))
        init = bytes((r * 7 + i * 13) % 256 for i in range(n))
        if kind == 'cdata':
            self.ffi.buffer(obj)[:] = init
        elif kind == 'ba':
            obj[:] = init
        else:
            obj[:] = array.array('i', init)
        self.stores.append(dict(kind=kind, obj=obj, model=bytearray(init)))

    def pick_store(self, k, pred=None):
        c = [i for i, s in enumerate(self.stores) if (pred is None or pred(s)) and s.get('obj') is not None]
        if not c:
            return None
        return c[k % len(c)]

    def pick_view(self, k, pred=None):
        c = [v for v in self.views if pred is None or pred(v)]
        if not c:
            return None
        return c[k % len(c)]

    def op_mkbuf(self, k, sizesel, r):
        si = self.pick_store(k, lambda s: s['kind'] == 'cdata')
        if si is None:
            return
        s = self.stores[si]
        n = len(s['model'])
        off = 0
        base = s['obj']
        keeps = True          # does this view keep the cdata (and so the memory) alive by itself?
        if sizesel == 'full':
            b = self.ffi.buffer(base)
            size = n
        else:
            off = r % (n + 1) if r % 3 else 0
            size = 0 if sizesel == 'zero' else (r // 7) % (n - off + 1)
            if off == 0:
                b = self.ffi.buffer(base, size)
            else:
                b = self.ffi.buffer(base + off, size)     # a derived pointer keeps nothing alive (by design)
                keeps = False
        if len(b) != size:
            raise Violation('C19.1', 'ffi.buffer(p, %d) has len %d' % (size, len(b)))
        self.views.append(dict(kind='buf', obj=b, s=si, off=off, n=size, ro=False, keeps=keeps))

    def op_mkbuf_fb(self, k, r):
        """ffi.buffer() over a from_buffer cdata: a view of the Python object's memory"""
        v = self.pick_view(k, lambda v: v['kind'] == 'fb')
        if v is None:
            return
        n = v['n']
        if r % 2:
            size = (r // 2) % (n + 1)
            b = self.ffi.buffer(v['obj'], size)
        else:
            size = n
            b = self.ffi.buffer(v['obj']) if v.get('isarray', True) else self.ffi.buffer(v['obj'], n)
        if len(b) != size:
            raise Violation('C19.1', 'ffi.buffer(from_buffer cdata, %d) has len %d' % (size, len(b)))
        self.views.append(dict(kind='buf', obj=b, s=v['s'], off=v['off'], n=size, ro=False, keeps=True, over_fb=True))
        self.out.probe('buffer_over_from_buffer_cdata')

    def op_buf_read(self, k, how, a, b):
        v = self.pick_view(k, lambda v: v['kind'] == 'buf')
        if v is None:
            return
        m = self.stores[v['s']]['model'][v['off']:v['off'] + v['n']]
        buf = v['obj']
        if how == 'index':
            want_exc = not (-v['n'] <= a < v['n'])
            try:
                got = buf[a]
            except IndexError:
                if not want_exc:
                    raise Violation('C19.1', 'buf[%d] raised IndexError on a length-%d view' % (a, v['n']))
                self.out.probe('buffer_index_out_of_range_rejected')
                return
            if want_exc:
                raise Violation('C19.1', 'buf[%d] on a length-%d view returned %r' % (a, v['n'], got))
            if got != bytes([m[a]]):
                raise Violation('C19.1', 'buf[%d] reads %r, model says %r' % (a, got, bytes([m[a]])))
            if a < 0:
                self.out.probe('negative_index_read')
        elif how == 'compare':
            # a view compares like the bytes it shows
            other = bytes(m)
            if a % 3 == 0 and len(other):
                k = a % len(other)
                other = other[:k] + bytes([(other[k] + 128 + b) % 256]) + other[k + 1:]
            elif a % 3 == 1:
                other = other[:a % (len(other) + 1)]
            mine = bytes(m)
            for name, got, want in (('==', buf == other, mine == other), ('!=', buf != other, mine != other),
                                    ('<', buf < other, mine < other), ('<=', buf <= other, mine <= other),
                                    ('>', buf > other, mine > other), ('>=', buf >= other, mine >= other)):
                if got != want:
                    raise Violation('C19.1', 'view %r %s %r is %r, the bytes it shows compare as %r'
                                    % (mine[:8], name, other[:8], got, want))
            self.out.probe('view_compared_with_bytes')
        else:
            sl = slice(a, b)
            got = buf[sl]
            if got != bytes(m[sl]):
                raise Violation('C19.1', 'buf[%r:%r] reads %r, bytearray semantics give %r' % (a, b, got, bytes(m[sl])))
            if (a is not None and abs(a) > v['n']) or (b is not None and abs(b) > v['n']):
                self.out.probe('out_of_range_slice_clamped')

    def op_buf_write(self, k, how, a, b, r, lensel, srckind):
        v = self.pick_view(k, lambda v: v['kind'] == 'buf')
        if v is None:
            return
        s = self.stores[v['s']]
        n = v['n']
        buf = v['obj']
        if how == 'index':
            val = bytes([r % 256])
            bad = lensel != 'right'
            if bad:
                val = [b'', b'ab', 65, 'x'][r % 4]
            inrange = -n <= a < n
            try:
                buf[a] = val
            except IndexError:
                if inrange and not bad:
                    raise Violation('C19.1', 'buf[%d] = byte raised IndexError on a length-%d view' % (a, n))
                return
            except (TypeError, ValueError):
                if not bad:
                    raise Violation('C19.1', 'buf[%d] = %r raised' % (a, val))
                self.out.fault('wrong_type_item_assignment')
                return
            if bad or not inrange:
                raise Violation('C19.1', 'buf[%d] = %r was accepted on a length-%d view' % (a, val, n))
            pos = a if a >= 0 else a + n
            s['model'][v['off'] + pos] = val[0]
            if a < 0:
                self.out.probe('negative_index_write')
            return
        sl = slice(a, b)
        start, stop, _ = sl.indices(n)
        count = max(0, stop - start)
        ln = {'right': count, 'less': max(0, count - 1 - r % 2), 'more': count + 1 + r % 3}[lensel]
        data = bytes((r + 3 * i) % 256 for i in range(ln))
        if srckind == 'bytearray':
            src = bytearray(data)
        elif srckind == 'memoryview':
            src = memoryview(data)
        elif srckind in ('array_H', 'array_I', 'mvcast_H', 'mvcast_Q') and ln and ln % {'H': 2, 'I': 4, 'Q': 8}[srckind[-1]] == 0:
            # sources whose items are wider than one byte: what counts is their size in bytes
            import array
            if srckind.startswith('array'):
                src = array.array(srckind[-1])
                src.frombytes(data)
            else:
                src = memoryview(bytearray(data)).cast(srckind[-1])
            self.out.probe('slice_assignment_from_a_source_with_wide_items')
        elif srckind == 'ffibuf':
            tmp = self.ffi.new('char[]', max(ln, 1))
            self.ffi.buffer(tmp)[0:ln] = data
            src = self.ffi.buffer(tmp, ln)
        else:
            src = data
        try:
            buf[sl] = src
        except ValueError:
            if ln == count:
                raise Violation('C19.1', 'buf[%r:%r] = %d bytes raised ValueError (slice length %d)' % (a, b, ln, count))
            self.out.fault('wrong_length_slice_assignment')
            return
        if ln != count:
            raise Violation('C19.1', 'buf[%r:%r] = %d bytes was accepted although the slice has %d bytes: '
                            'assignments must preserve length' % (a, b, ln, count))
        s['model'][v['off'] + start:v['off'] + start + count] = data

    def op_from_buffer(self, k, elem, shape, writable, r):
        si = self.pick_store(k, lambda s: s['kind'] in ('ba', 'arr'))
        if si is None:
            return
        s = self.stores[si]
        ctype, fmt, size = ELEM[elem]
        nbytes = len(s['model'])
        src, off = s['obj'], 0
        if (r // 7) % 4 == 0 and nbytes > 0:
            # the source is a slice of the object (a memoryview with an offset), not the object itself
            off = (r // 29) % (nbytes + 1)
            src = memoryview(s['obj']).cast('B')[off:]
            nbytes -= off
            self.out.probe('from_buffer_over_a_memoryview_slice')
        items = nbytes // size
        if shape == 'open':
            T = ctype + '[]'
            want = items
            fail = None
        elif shape == 'fixed_ok':
            want = (r % (items + 1))
            T = '%s[%d]' % (ctype, want)
            fail = None
        elif shape == 'fixed_toobig':
            want = items + 1 + r % 3
            T = '%s[%d]' % (ctype, want)
            fail = ValueError
        else:
            T = ctype + ' *'
            want = None
            fail = None
        try:
            cd = self.ffi.from_buffer(T, src, writable)
        except ValueError:
            if fail is None:
                raise Violation('C19.2', 'from_buffer(%r, <%d bytes>) raised ValueError' % (T, nbytes))
            self.out.fault('fixed_array_larger_than_buffer')
            return
        if fail is not None:
            raise Violation('C19.2', 'from_buffer(%r, <%d bytes>) was accepted: the buffer is too small' % (T, nbytes))
        if want is not None and len(cd) != want:
            raise Violation('C19.2', 'from_buffer(%r, <%d bytes>) has %d items, expected %d' % (T, nbytes, len(cd), want))
        n = (want if want is not None else items) * size
        del src
        self.views.append(dict(kind='fb', obj=cd, s=si, off=off, n=n, elem=elem, items=n // size, ro=False,
                               isarray=(shape != 'ptr')))
        if nbytes % size:
            self.out.probe('partial_last_element_ignored')

    def op_bad_from_buffer(self, which, r):
        f = self.ffi
        try:
            if which == 'readonly':
                f.from_buffer('char[]', b'abcdef', True)
            elif which == 'noncontig':
                f.from_buffer('char[]', memoryview(bytearray(16))[::2])
            elif which == 'unicode':
                f.from_buffer('char[]', u'abc')
            else:
                f.from_buffer('int', bytearray(8))
        except (TypeError, ValueError, BufferError):
            self.out.fault('exporter_' + which)
            return
        raise Violation('C19.2', 'from_buffer accepted a %s source' % which)

    def op_fb_rw(self, k, r, write):
        v = self.pick_view(k, lambda v: v['kind'] == 'fb' and v['items'] > 0)
        if v is None:
            return
        s = self.stores[v['s']]
        ctype, fmt, size = ELEM[v['elem']]
        i = r % v['items']
        off = v['off'] + i * size
        if write:
            raw = bytes((r + 5 * t) % 256 for t in range(size))
            val = raw if v['elem'] == 'char' else struct.unpack(fmt, raw)[0]
            v['obj'][i] = val
            s['model'][off:off + size] = raw
            self.out.probe('write_through_from_buffer_cdata')
        else:
            got = v['obj'][i]
            raw = bytes(s['model'][off:off + size])
            want = raw if v['elem'] == 'char' else struct.unpack(fmt, raw)[0]
            if got != want:
                raise Violation('C19.2', 'from_buffer cdata [%d] reads %r, the object holds %r' % (i, got, want))

    def op_resize(self, k):
        """a bytearray must stay export-locked (its memory must not move) while a from_buffer cdata on it
        is alive -- and an ffi.buffer view made over such a cdata keeps that cdata alive"""
        si = self.pick_store(k, lambda s: s['kind'] == 'ba')
        if si is None:
            return
        s = self.stores[si]
        direct = [v for v in self.views if v['s'] == si and v['kind'] == 'fb']
        through = [v for v in self.views if v['s'] == si and v.get('over_fb')]
        try:
            s['obj'].append(0)
            s['obj'].pop()
            ok = True
        except BufferError:
            ok = False
        if ok and (direct or through):
            raise Violation('C19.1' if not direct else 'C19.2',
                            'a bytearray could be resized although %d from_buffer cdata and %d ffi.buffer views over '
                            'from_buffer cdata on it are alive: the views are no longer live views of its bytes'
                            % (len(direct), len(through)))
        if through and not direct:
            self.out.probe('view_keeps_dropped_from_buffer_cdata_alive')

    def stores_index_of(self, si):
        """selector k that makes pick_store(k, ba-predicate) return store si"""
        c = [i for i, s in enumerate(self.stores) if s['kind'] == 'ba' and s.get('obj') is not None]
        return c.index(si) if si in c else 0

    def op_pywrite(self, k, r):
        si = self.pick_store(k, lambda s: s['kind'] == 'ba')
        if si is None:
            return
        s = self.stores[si]
        if not len(s['model']):
            return
        pos = r % len(s['model'])
        s['obj'][pos] = r % 251
        s['model'][pos] = r % 251

    def region(self, k, r, need_writable):
        """a memmove operand: (object, store idx or None, byte offset, available bytes, label)"""
        cands = []
        for si, s in enumerate(self.stores):
            if s.get('obj') is None:
                continue
            n = len(s['model'])
            if s['kind'] == 'cdata':
                cands.append(('cdata', si))
            elif s['kind'] == 'ba':
                cands.append(('ba', si))
            elif s['kind'] == 'arr':
                cands.append(('arr', si))
        for v in self.views:
            cands.append(('view', v))
        if not need_writable:
            cands.append(('bytes', None))
        if not cands:
            return None
        kind, x = cands[k % len(cands)]
        if kind == 'bytes':
            data = bytes((r + i) % 256 for i in range(1 + r % 40))
            return (data, None, 0, len(data), 'bytes', data)
        if kind == 'view':
            v = x
            return (v['obj'], v['s'], v['off'], v['n'], 'view-' + v['kind'], None)
        s = self.stores[x]
        n = len(s['model'])
        off = r % (n + 1)
        if kind == 'cdata':
            return (s['obj'] + off, x, off, n - off, 'cdata+off', None)
        if off % 4 and kind == 'arr':
            off -= off % 4
        if kind == 'ba' or kind == 'arr':
            mv = memoryview(s['obj']).cast('B')[off:]
            return (mv, x, off, n - off, kind + '-memoryview', None)

    def op_memmove(self, kd, ks, r):
        d = self.region(kd, r, True)
        s = self.region(ks, r // 3 + 1, False)
        if d is None or s is None:
            return
        dobj, dsi, doff, davail, dlab, _ = d
        sobj, ssi, soff, savail, slab, sdata = s
        n = min(davail, savail)
        if n > 0:
            n = (1 + (r // 11) % n) if r % 17 else 0        # sometimes a zero-length move
        src_bytes = sdata[:n] if ssi is None else bytes(self.stores[ssi]['model'][soff:soff + n])
        try:
            self.ffi.memmove(dobj, sobj, n)
        finally:
            if isinstance(dobj, memoryview):
                dobj.release()
            if isinstance(sobj, memoryview):
                sobj.release()
        self.stores[dsi]['model'][doff:doff + n] = src_bytes
        if dsi == ssi and n > 0:
            if doff == soff:
                self.out.probe('memmove_identical')
            elif doff < soff < doff + n:
                self.out.probe('memmove_overlap_forward')
            elif soff < doff < soff + n:
                self.out.probe('memmove_overlap_backward')
        self.out.probe('memmove_%s_from_%s' % (dlab.split('-')[0].split('+')[0], slab.split('-')[0].split('+')[0]))

    def op_memmove_readonly_dest(self, r):
        try:
            self.ffi.memmove(b'readonly!', b'abc', 3)
        except (TypeError, BufferError, ValueError):
            self.out.fault('memmove_readonly_destination_rejected')
            return
        raise Violation('C19.3', 'memmove() into a bytes object was accepted')

    def op_orphan(self, k):
        """drop the cdata behind a live full-size ffi.buffer view, collect and churn: the view keeps the memory alive"""
        c = [si for si, s in enumerate(self.stores) if s['kind'] == 'cdata' and s.get('obj') is not None and
             any(v['s'] == si and v['kind'] == 'buf' and v['off'] == 0 and v['n'] == len(s['model']) for v in self.views)]
        if not c:
            return
        si = c[k % len(c)]
        self.stores[si]['obj'] = None
        gc.collect()
        hist.churn(self.ffi, k)
        self.out.fault('cdata_dropped_behind_live_view')
        self.out.probe('view_outlives_its_cdata')

    def op_dropview(self, k):
        if self.views:
            v = self.views.pop(k % len(self.views))
            s = self.stores[v['s']]
            if s['kind'] == 'cdata' and s.get('obj') is None and v.get('keeps'):
                if not any(w['s'] == v['s'] and w.get('keeps') for w in self.views):
                    # the last object keeping this memory alive is gone: every remaining view of it
                    # (made from derived pointers) is dangling and must not be used any more
                    self.views[:] = [w for w in self.views if w['s'] != v['s']]
            del v

    def apply(self, op):
        n = op[0]
        if n == 'store':
            self.op_store(op[1], op[2], op[3])
        elif n == 'mkbuf':
            self.op_mkbuf(op[1], op[2], op[3])
        elif n == 'mkbuf_fb':
            self.op_mkbuf_fb(op[1], op[2])
        elif n == 'bread':
            self.op_buf_read(op[1], op[2], op[3], op[4])
        elif n == 'bwrite':
            self.op_buf_write(op[1], op[2], op[3], op[4], op[5], op[6], op[7])
        elif n == 'frombuf':
            self.op_from_buffer(op[1], op[2], op[3], op[4], op[5])
        elif n == 'badfrombuf':
            self.op_bad_from_buffer(op[1], op[2])
        elif n == 'fbrw':
            self.op_fb_rw(op[1], op[2], op[3])
        elif n == 'pywrite':
            self.op_pywrite(op[1], op[2])
        elif n == 'resize':
            self.op_resize(op[1])
        elif n == 'fb_orphan':
            # view over a from_buffer cdata, then drop that cdata + collect: the view must keep it alive
            before = len(self.views)
            self.op_mkbuf_fb(op[1], op[2])
            if len(self.views) > before:
                bv = self.views[-1]
                for i, v in enumerate(self.views):
                    if v['kind'] == 'fb' and v['s'] == bv['s']:
                        del self.views[i]
                        break
                gc.collect()
                self.out.fault('from_buffer_cdata_dropped_behind_live_view')
                self.op_resize(self.stores_index_of(bv['s']))
        elif n == 'memmove':
            self.op_memmove(op[1], op[2], op[3])
        elif n == 'memmove_ro':
            self.op_memmove_readonly_dest(op[1])
        elif n == 'orphan':
            self.op_orphan(op[1])
        elif n == 'dropview':
            self.op_dropview(op[1])
        elif n == 'collect':
            gc.collect()
        else:
            raise HarnessError('unknown op %r' % (op,))

    def run(self):
        clause_of = {'memmove': 'C19.3', 'memmove_ro': 'C19.3', 'frombuf': 'C19.2', 'fbrw': 'C19.2',
                     'pywrite': 'C19.2'}
        for self.opi, op in enumerate(self.case['ops']):
            self.apply(op)
            self.check_memory('after op %d %r' % (self.opi, op[:4]), clause_of.get(op[0], 'C19.1'))
            self.trace.append((op[0], len(self.views), len(self.stores)))


def rnd_bound(rng, n):
    r = rng.random()
    if r < 0.12:
        return None
    if r < 0.62:
        return rng.randint(0, n)
    if r < 0.8:
        return -rng.randint(1, n + 3)
    return n + rng.randint(1, 5)


class C19(core.Check):
    pid = 'C19'
    level = 'exploration'
    engine = 'H'
    quick_runs = 40000
    thorough_budget_s = 600
    chunk = 500
    crash_clause = 'C19.1'
    env = {'MALLOC_PERTURB_': '221', 'PYTHONMALLOC': 'malloc'}
    rule = ('one run = a seeded history of up to 50 operations over cdata / bytearray / array.array stores and '
            'views of them (ffi.buffer whole/partial/empty; index and slice reads with any bounds; item and slice '
            'assignment of right and wrong length/type from bytes, bytearray, memoryview and other ffi.buffers; '
            'from_buffer with open, fixed, too-large and pointer types; reads/writes through the from_buffer '
            'cdata and through the Python object; memmove between every pair of operand kinds with every overlap '
            'class; refused exporters; dropping + collecting + churning the cdata behind a live view), checked '
            'after every op against one bytearray per store. Fault-free histories are plain model-based testing. '
            'non-trivial = at least one rejected/faulted op or overlapping memmove, with at least two views of '
            'one store; distinct = digest of the (op, views, stores) trace')
    components = {
        'real': ['_cffi_backend minibuffer (mb_*), b_buffer_new, direct_from_buffer, b_memmove (private sim build)',
                 'CPython buffer protocol objects (bytearray, array.array, memoryview)'],
        'simulated': ['nothing is scheduled; GC/drop of the cdata behind a view is an injected event'],
        'stub': [],
    }
    assumptions = ['slices with a step, cdata right-hand sides of buffer slice assignment, overlapping sources of slice '
                   'assignment and out-of-bounds memmove sizes are not generated (unspecified or undefined by design)']

    def prepare(self, tier):
        self.bdir = build.backend(True)
        build.activate(self.bdir)
        import cffi
        self.ffi = cffi.FFI()

    def generate(self, rng, idx, tier):
        ops = [['store', rng.choice(['cdata', 'ba', 'arr']), rng.randint(0, 48), rng.below(1000)],
               ['store', 'cdata', rng.randint(1, 48), rng.below(1000)]]
        for _ in range(rng.randint(4, 50)):
            n = rng.weighted([('store', 4), ('mkbuf', 10), ('mkbuf_fb', 3), ('bread', 16), ('bwrite', 16), ('frombuf', 8),
                              ('badfrombuf', 2), ('fbrw', 10), ('pywrite', 4), ('resize', 4), ('fb_orphan', 3), ('memmove', 16), ('memmove_ro', 1),
                              ('orphan', 3), ('dropview', 3), ('collect', 1)])
            k = rng.below(1000)
            r = rng.below(10 ** 9)
            if n == 'store':
                ops.append(['store', rng.choice(['cdata', 'ba', 'arr']), rng.randint(0, 48), r])
            elif n in ('mkbuf_fb', 'fb_orphan'):
                ops.append([n, k, r])
            elif n == 'mkbuf':
                ops.append(['mkbuf', k, rng.weighted([('full', 5), ('partial', 4), ('zero', 1)]), r])
            elif n == 'bread':
                if rng.chance(0.12):
                    ops.append(['bread', k, 'compare', rng.below(1000), rng.randint(0, 3)])
                elif rng.chance(0.4):
                    ops.append(['bread', k, 'index', rng.randint(-55, 55), None])
                else:
                    ops.append(['bread', k, 'slice', rnd_bound(rng, 48), rnd_bound(rng, 48)])
            elif n == 'bwrite':
                if rng.chance(0.35):
                    ops.append(['bwrite', k, 'index', rng.randint(-55, 55), None, r,
                                rng.weighted([('right', 5), ('less', 1)]), 'bytes'])
                else:
                    ops.append(['bwrite', k, 'slice', rnd_bound(rng, 48), rnd_bound(rng, 48), r,
                                rng.weighted([('right', 6), ('less', 2), ('more', 2)]),
                                rng.choice(['bytes', 'bytearray', 'memoryview', 'ffibuf', 'array_H', 'array_I', 'mvcast_H', 'mvcast_Q'])])
            elif n == 'frombuf':
                ops.append(['frombuf', k, rng.choice(ENAMES),
                            rng.weighted([('open', 5), ('fixed_ok', 3), ('fixed_toobig', 2), ('ptr', 1)]),
                            rng.chance(0.5), r])
            elif n == 'badfrombuf':
                ops.append(['badfrombuf', rng.choice(['readonly', 'noncontig', 'unicode', 'nonarray']), r])
            elif n == 'fbrw':
                ops.append(['fbrw', k, r, rng.chance(0.5)])
            elif n == 'memmove':
                ops.append(['memmove', k, rng.below(1000), r])
            elif n in ('pywrite',):
                ops.append([n, k, r])
            elif n in ('orphan', 'dropview', 'resize'):
                ops.append([n, k])
            elif n == 'memmove_ro':
                ops.append([n, r])
            else:
                ops.append(['collect'])
        return dict(ops=ops)

    def execute(self, case):
        out = Outcome()
        run = Run(self, case, out)
        try:
            run.run()
        except Violation as v:
            out.violate(v.clause, v.detail, run.opi)
        except (HarnessError, MemoryError):
            raise
        except Exception as e:
            out.violate('C19.1', hist.unexpected(e, (case['ops'][run.opi:run.opi + 1] or [None])[0]), run.opi)
        out.steps = len(case['ops'])
        out.digest = digest_of(run.trace)
        multi = False
        seen = {}
        for v in run.views:
            seen[v['s']] = seen.get(v['s'], 0) + 1
        multi = any(c >= 2 for c in seen.values())
        out.nontrivial = multi and (bool(out.faults) or any(k.startswith('memmove_overlap') or 'rejected' in k
                                                           for k in out.probes))
        out.sample = dict(ops=case['ops'][:20])
        del run.views[:], run.stores[:]
        return out

    def shrink_candidates(self, case):
        for c in hist.shrink_ops(case):
            yield c

    def signature(self, case, out):
        return '%s' % (out.clause,)


CHECK = C19()
