"""C36 -- callbacks from non-Python threads get a valid, persistent thread state.
Engine P with foreign threads (sim/ftdriver.py): real pthreads not created by Python,
scheduled one at a time; exits are joined so that the TLS destructor has run when the
op returns."""
import os, sys, gc, io, json, threading, subprocess, _thread
from sim import core, build
from sim.core import Outcome, PRNG, HarnessError, digest_of

SHUTDOWN_SCRIPT = os.path.join(core.VERIF, 'sim', 'c36_shutdown.py')
ERRVAL = -424242


class Violation(Exception):
    def __init__(self, clause, detail):
        self.clause = clause
        self.detail = detail


class Run(object):
    def __init__(self, check, case, out, sched):
        self.check = check
        self.case = case
        self.out = out
        self.sched = sched
        self.mod = check.mod
        self.lib = check.mod.lib
        self.tl = threading.local()
        self.state = {}          # who -> dict(ident, tls, calls)
        self.params = {}         # who -> parameters of the call in flight
        self.events = []
        self.serial = 0
        self.violation = None
        self.base = None
        self.npy = len(case['controllers'])
        self.depth = {}
        self.drv = None

    def fail(self, clause, detail):
        if self.violation is None:
            self.violation = Violation(clause, detail)

    # ---- the callback under test (runs in whichever thread C calls it from) ----
    def body(self, who, arg):
        try:
            return self._body(who, arg)
        except RuntimeError:
            raise
        except BaseException as e:
            self.fail('C36.1', 'callback body failed in thread %r: %r' % (who, e))
            return 0

    def _body(self, who, arg):
        st = self.state.setdefault(who, dict(ident=None, tls=None, calls=0))
        p = self.params.get(who, {})
        # clause 1: a valid thread state
        ident = threading.get_ident()
        ct = threading.current_thread()
        fr = sys._getframe()
        if ident != _thread.get_ident() or ct is None or fr.f_code is None:
            self.fail('C36.1', 'thread %r: inconsistent thread identity inside a callback' % who)
        if st['ident'] is None:
            st['ident'] = ident
        elif st['ident'] != ident:
            self.fail('C36.1', 'thread %r: threading.get_ident() changed between two callbacks' % who)
        for w2, s2 in self.state.items():
            if w2 != who and s2['ident'] == ident and not s2.get('exited'):
                self.fail('C36.1', 'threads %r and %r report the same ident while both are alive' % (who, w2))
        # clauses 2 and 3: thread-local data
        v = getattr(self.tl, 'v', None)
        if v != st['tls']:
            if st['tls'] is None:
                self.fail('C36.3', 'thread %r: its first callback sees thread-local data %r left by another '
                          'thread' % (who, v))
            else:
                self.fail('C36.2', 'thread %r: thread-local data written in an earlier callback (%r) reads back '
                          'as %r' % (who, st['tls'], v))
        self.serial += 1
        nv = [who, self.serial]
        self.tl.v = nv
        st['tls'] = nv
        st['calls'] += 1
        self.events.append(('cb', who, arg))
        d = self.depth.get(who, 0)
        s = self.sched
        for i in range(p.get('yields', 0)):
            if s.is_holder_thread():
                s.point('cb')
        if p.get('gc'):
            gc.collect()
            self.out.fault('gc_inside_callback')
        if p.get('nested') and d == 0:
            self.depth[who] = 1
            try:
                r = self.lib.nested_entry(who, arg)
            finally:
                self.depth[who] = 0
            if r != (arg + 1000000) * 2 + 1 and r != ERRVAL:
                self.fail('C36.1', 'nested callback returned %r' % (r,))
            self.out.probe('nested_callback_in_foreign_thread' if who >= 0 else 'nested_callback_in_python_thread')
        if p.get('raises') and d == 0:
            self.out.fault('callback_body_raises')
            raise RuntimeError('injected callback failure')
        return arg * 2 + 1

    # ---- first on_idle of a new foreign thread: the reclamation point ----
    def on_register(self, F):
        n = self.lib.count_tstates()
        if self.base is None:
            return                  # the flush thread
        live = sum(1 for f in self.drv.fts.values() if f.alive and f.registered)
        want = self.base + self.npy + live
        self.events.append(('register', F.fid, n - want))
        if n != want:
            self.fail('C36.3', 'a new foreign thread registered: %d thread states exist, expected %d '
                      '(%d Python threads + %d live foreign threads + %d base): thread states of exited threads '
                      'were %s' % (n, want, self.npy, live, self.base,
                                   'leaked' if n > want else 'freed too early (or states of threads that exited before the '
                                   'baseline was taken were still there then and went away since: late reclamation)'))
        if any(f.exited for f in self.drv.fts.values()):
            self.out.probe('zombie_reclaimed_at_registration')

    # ---- controller scripts ----
    def controller(self, cid, script):
        def fn(c):
            mine = []        # Foreign objects owned by this controller, alive
            drv = self.drv
            who_py = -1 - cid
            for op in script:
                if self.violation is not None:
                    break
                name = op[0]
                if name == 'start':
                    if len(mine) < 3:
                        anyexit = any(f.exited for f in drv.fts.values())
                        F = drv.start()
                        F.posted = 0
                        F.lastarg = None
                        mine.append(F)
                        if anyexit:
                            self.out.probe('thread_started_right_after_an_exit')
                        self.sched.point('started')
                elif name == 'call':
                    if mine:
                        F = mine[op[1] % len(mine)]
                        drv.wait_idle(F)
                        self.check_result(F)
                        self.params[F.fid] = dict(yields=op[4], gc=op[5], raises=op[6], nested=(op[2] == 2))
                        F.lastarg = (op[7], op[3], op[6])
                        F.posted += op[3]
                        if op[2] >= 5:
                            self.out.probe('callback_entered_with_the_GIL_already_held')
                        drv.post_call(F, op[7], op[3], op[2] if op[2] != 2 else 0)
                        self.sched.point('posted')
                        if not op[8]:
                            drv.wait_idle(F)
                            self.check_result(F)
                        else:
                            self.out.probe('asynchronous_call')
                elif name == 'wait':
                    if mine:
                        F = mine[op[1] % len(mine)]
                        drv.wait_idle(F)
                        self.check_result(F)
                elif name == 'exit':
                    if mine:
                        F = mine.pop(op[1] % len(mine))
                        drv.wait_idle(F)
                        self.check_result(F)
                        others_mid = [f for f in drv.fts.values() if f is not F and f.alive and drv.busy(f)]
                        drv.exit(F)
                        st = self.state.get(F.fid)
                        if st is not None:
                            st['exited'] = True
                        self.out.fault('foreign_thread_exit')
                        if others_mid:
                            self.out.probe('exit_while_another_thread_is_mid_callback')
                        self.sched.point('exited')
                elif name == 'pycall':
                    self.params[who_py] = dict(yields=op[2], gc=False, raises=False, nested=(op[1] == 2))
                    r = self.lib.call_cb_from_here(who_py, op[3], op[1] if op[1] != 2 else 0)
                    if r != op[3] * 2 + 1:
                        self.fail('C36.1', 'callback invoked from a Python thread returned %r' % (r,))
                    self.out.probe('python_thread_callback')
                elif name == 'gatedpair':
                    # two brand-new threads, both past the callback entry before either holds the GIL
                    self.pairs = getattr(self, 'pairs', 0) + 1
                    wx, wy = -1000 - 2 * self.pairs, -1001 - 2 * self.pairs
                    self.params[wx] = dict(yields=0, gc=op[5], raises=False, nested=op[6])
                    self.params[wy] = dict(yields=0, gc=False, raises=False, nested=op[7])
                    warm = op[9] if len(op) > 9 else 0
                    rx, _, ry, _ = drv.gated_pair(wx, wy, op[1], op[2], op[3], op[4], op[8],
                                                  wx if warm & 1 else 0, wy if warm & 2 else 0)
                    if warm:
                        self.out.probe('gated_callback_of_a_thread_that_already_has_a_thread_state')
                    for w2, a, r in ((wx, op[1], rx), (wy, op[2], ry)):
                        if r != a * 2 + 1:
                            self.fail('C36.1', 'overlapping first callbacks of two new threads: one returned %r, '
                                      'expected %r' % (r, a * 2 + 1))
                        st = self.state.get(w2)
                        if st is None or st['calls'] < 1 + (1 if warm & (1 if w2 == wx else 2) else 0):
                            self.fail('C36.1', 'overlapping first callbacks of two new threads: a body did not run')
                        else:
                            st['exited'] = True
                    self.out.fault('two_new_threads_enter_callbacks_before_either_holds_the_GIL')
                    self.out.fault('foreign_thread_exit')
                    self.sched.point('pair')
                elif name == 'gc':
                    gc.collect()
                    self.out.fault('gc_event')
                    self.sched.point('gc')
                else:
                    self.sched.point('pt')
            # a controller exits its own foreign threads before it finishes
            for F in mine:
                drv.wait_idle(F)
                self.check_result(F)
                if self.case.get('leave_alive'):
                    continue
                drv.exit(F)
                st = self.state.get(F.fid)
                if st is not None:
                    st['exited'] = True
                self.sched.point('exited')
        return fn

    def check_result(self, F):
        if F.lastarg is None:
            return
        arg, n, raises = F.lastarg
        got = self.lib.ft_result(F.fid)
        want = ERRVAL if raises else (arg + n - 1) * 2 + 1
        nc = self.lib.ft_ncalls(F.fid)
        if nc != F.posted:
            self.fail('C36.1', 'foreign thread %d completed %d callbacks, %d were posted' % (F.fid, nc, F.posted))
        elif got != want:
            self.fail('C36.1', 'foreign thread %d: last callback returned %r, expected %r' % (F.fid, got, want))
        F.lastarg = None


class C36(core.Check):
    pid = 'C36'
    level = 'exploration'
    engine = 'P'
    quick_runs = 3000
    thorough_budget_s = 900
    chunk = 50
    history_dependent = True
    crash_clause = 'C36.4'
    hang_clause = "C36.4"
    chunk_timeout_s = 75
    rule = ('one run = 1-3 Python controller threads, each creating, using and exiting up to 3 foreign threads '
            '(pthreads not created by Python) that invoke cffi callbacks (libffi closures, extern "Python", '
            'nested C->Python->C->Python) 1-20 times, synchronously or asynchronously, with switch points inside '
            'callback bodies, GC events (also inside callbacks), raising bodies, exits while other threads are '
            'mid-callback and new threads started right after an exit; all threads are scheduled one at a time by '
            'a seeded scheduler (uniform / sticky / PCT). Plus one-seed-per-process interpreter-shutdown '
            'scenarios. non-trivial = at least two threads with thread states exist at some point and at least '
            'one context switch; distinct = digest of the (client, point) trace')
    components = {
        'real': ['_cffi_backend gil_ensure / thread_canary_* / cffi_thread_shutdown / invoke_callback / cffi_call_python '
                 '(private sim build, USE__THREAD on or off)', 'real pthreads and the real pthread key destructor',
                 'helper extension generated and compiled from the cffi under test', 'CPython thread states and threading.local'],
        'simulated': ['which thread runs next (baton passing over parked OS threads)', 'instants of GC'],
        'stub': [],
    }
    assumptions = ['only one OS thread executes Python/cffi code at any instant (GIL build; the exit path of a foreign '
                   'thread runs while its joiner is blocked in pthread_join)',
                   'thread-state counts are asserted only at the registration of a new foreign thread']

    def prepare(self, tier):
        self.dirs = {'T': build.backend(True), 'N': build.backend(False)}
        from sim import ftdriver
        self.hdir = dict((k, ftdriver.build_helper(d)) for k, d in self.dirs.items())
        self.active = None

    def activate(self, variant):
        if self.active is not None:
            if self.active != variant:
                raise HarnessError('backend variant %s requested after %s was activated' % (variant, self.active))
            return
        build.activate(self.dirs[variant])
        sys.path.insert(0, self.hdir[variant])
        import _verif_ft
        from sim import pysched, ftdriver
        self.mod = _verif_ft
        self.pysched = pysched
        self.ftdriver = ftdriver
        self.active = variant
        self.next_fid = 0

    # ------------------------------------------------------------------
    def gen_script(self, rng, nops):
        ops = [['start']]
        for _ in range(nops):
            n = rng.weighted([('start', 5), ('call', 14), ('wait', 3), ('exit', 5), ('pycall', 3), ('gc', 2), ('pt', 2),
                              ('gatedpair', 2)])
            if n == 'call':
                ops.append(['call', rng.below(100), rng.weighted([(0, 4), (1, 3), (2, 2), (5, 1), (6, 1)]),
                            rng.weighted([(1, 6), (3, 3), (20, 1)]), rng.randint(0, 3),
                            rng.chance(0.12), rng.chance(0.1), rng.randint(1, 1000), rng.chance(0.4)])
            elif n == 'gatedpair':
                ops.append(['gatedpair', rng.randint(1, 1000), rng.randint(1, 1000), rng.below(2), rng.below(2),
                            rng.chance(0.2), rng.chance(0.3), rng.chance(0.3), rng.below(2), rng.below(4)])
            elif n in ('wait', 'exit'):
                ops.append([n, rng.below(100)])
            elif n == 'pycall':
                ops.append(['pycall', rng.weighted([(0, 3), (1, 3), (2, 1)]), rng.randint(0, 2), rng.randint(1, 1000)])
            else:
                ops.append([n])
        return ops

    def generate(self, rng, idx, tier):
        nctl = rng.weighted([(1, 3), (2, 5), (3, 2)])
        variant = 'T' if (idx // self.chunk) % 2 == 0 else 'N'
        return dict(controllers=[self.gen_script(rng, rng.randint(2, 12)) for _ in range(nctl)],
                    strategy=rng.choice(['random', 'sticky', 'pct']), stick=rng.choice([0.5, 0.8, 0.95]),
                    pct_changes=rng.randint(1, 3), sched_seed=rng.u64(), variant=variant)

    # ------------------------------------------------------------------
    def execute(self, case, shutdown=False):
        self.activate(case['variant'])
        ps = self.pysched
        out = Outcome()
        rng = PRNG(case['sched_seed'])
        sched = ps.Sched(rng, case.get('strategy', 'random'), decisions=case.get('schedule'),
                         stick=case.get('stick', 0.8), pct_changes=case.get('pct_changes', 2), est_len=200)
        sched.keep_threads = True
        run = Run(self, case, out, sched)
        olderr = sys.stderr
        sys.stderr = io.StringIO()
        gcwas = gc.isenabled()
        gc.disable()
        try:
            drv = self.ftdriver.Driver(self.mod, sched, run.body, run.on_register, first_id=self.next_fid)
            run.drv = drv
            # flush: a throw-away foreign thread registers (freeing zombies left by earlier runs of this
            # worker) and exits; its own thread state is reclaimed at the next registration
            F0 = drv.start()
            n0 = self.mod.lib.count_tstates()
            drv.exit(F0)
            F0.exited = False
            run.base = n0 - 1
            for cid, script in enumerate(case['controllers']):
                sched.add_client(run.controller(cid, script))
            verdict = sched.run()
            if run.violation is not None:
                out.violate(run.violation.clause, run.violation.detail, sched.steps)
            elif drv.violation is not None:
                out.harness(drv.violation[1])
            elif verdict == 'deadlock':
                out.violate('C36.4', 'deadlock: %r' % (sched.deadlock_info,), sched.steps)
            elif verdict == 'stepcap':
                out.harness('step cap')
            for c in sched.clients:
                if c.error is not None and out.verdict == 'ok':
                    out.harness('client %d raised %r' % (c.id, c.error))
            if not shutdown:
                if verdict == 'done':
                    drv.teardown()
                    sched.release_threads()
                self.next_fid = drv.next_id if drv.next_id < 50 else 0
        finally:
            if not shutdown:
                sys.stderr = olderr
                if gcwas:
                    gc.enable()
        out.steps = sched.steps
        out.schedule = sched.schedule
        out.digest = digest_of([sched.trace, run.events])
        nforeign = sum(1 for c in sched.clients if c.foreign)
        out.nontrivial = sched.switches > 0 and nforeign >= 2
        if case.get('strategy') == 'pct':
            out.fault('thread_stall_pct')
        out.sample = dict(variant=case['variant'], strategy=case.get('strategy'), controllers=case['controllers'],
                          decisions=len(sched.schedule), switches=sched.switches,
                          trace_head=['%d:%s' % t for t in sched.trace[:40]])
        self.last_run = run
        return out

    def shrink_candidates(self, case):
        ctl = case['controllers']
        if len(ctl) > 1:
            for i in range(len(ctl)):
                yield dict(case, controllers=ctl[:i] + ctl[i + 1:])
        for i in range(len(ctl)):
            for j in range(len(ctl[i]) - 1, 0, -1):
                nc = [list(x) for x in ctl]
                del nc[i][j]
                yield dict(case, controllers=nc)
        for i in range(len(ctl)):
            for j, op in enumerate(ctl[i]):
                if op[0] == 'call':
                    for pos, val in ((3, 1), (4, 0), (5, False), (6, False), (8, False), (2, 0)):
                        if pos == 2 and op[2] >= 5:
                            continue
                        if op[pos] != val:
                            nc = [list(x) for x in ctl]
                            nop = list(op)
                            nop[pos] = val
                            nc[i][j] = nop
                            yield dict(case, controllers=nc)
        s = case.get('schedule')
        if s:
            yield dict(case, schedule=s[:len(s) // 2])

    def signature(self, case, out):
        return '%s' % (out.clause,)

    # ------------------------------------------------------------------
    # interpreter shutdown with zombies / live foreign threads: one process per seed
    # ------------------------------------------------------------------
    def post_batch(self, tier, stats):
        verif_seed = int(os.environ.get('VERIF_SEED', '0') or 0)
        n = 72 if tier == 'quick' else 600
        rng = PRNG(core.derive(verif_seed, 'C36', 'shutdown'))
        cases = []
        for i in range(n):
            scen = ['exited_unreclaimed', 'alive_in_mailbox', 'parked_inside_callback', 'mixed', 'collect_then_exit',
                    'blocked_in_c_joined_at_exit'][i % 6]
            cases.append(dict(scenario=scen, nthreads=rng.randint(1, 4), calls=rng.randint(1, 5),
                              variant='T' if rng.chance(0.5) else 'N', run_index='S%d' % i, shutdown=True,
                              malloc_debug=(i % 2 == 0)))
        import concurrent.futures
        viol = []
        bad = 0

        def one(case):
            env = dict(os.environ)
            if case.get('malloc_debug'):
                env['PYTHONMALLOC'] = 'debug'      # freed blocks are filled: a stale pointer is visible at once
            p = subprocess.run([sys.executable, '-B', SHUTDOWN_SCRIPT, json.dumps(case)], stdout=subprocess.PIPE,
                               stderr=subprocess.PIPE, timeout=120, env=env)
            return case, p.returncode, p.stdout.decode('utf-8', 'replace'), p.stderr.decode('utf-8', 'replace')
        with concurrent.futures.ThreadPoolExecutor(max_workers=core.NCPU) as ex:
            results = list(ex.map(one, cases))
        counts = {}
        for case, rc, so, se in results:
            counts[case['scenario']] = counts.get(case['scenario'], 0) + 1
            problem = None
            if 'HARNESS' in so:
                raise HarnessError('shutdown scenario harness failure: %s %s' % (so[-300:], se[-300:]))
            if 'END-MARKER' not in so:
                problem = 'the scenario did not reach its end marker (rc %d): %s' % (rc, (so + se)[-300:])
            elif rc != 0:
                problem = 'interpreter shutdown ended with status %d: %s' % (rc, se[-300:])
            elif 'Fatal Python error' in se:
                problem = 'fatal error at interpreter shutdown: %s' % se[-300:]
            elif case['scenario'] == 'blocked_in_c_joined_at_exit' and 'ATEXIT-JOINED' not in se:
                problem = 'the atexit handler that joins the remaining foreign threads did not complete: %s' % se[-300:]
            if problem:
                bad += 1
                if len(viol) < 2:
                    outd = dict(verdict='violation', clause='C36.4', op=None, digest='',
                                detail='shutdown scenario %s (%d threads): %s' % (case['scenario'], case['nthreads'], problem))
                    path = core.write_replay(self, case, outd, tier, verif_seed, tag='shutdown')
                    viol.append((case, outd, path))
        stats.extra['shutdown_scenarios'] = dict(runs=len(cases), by_scenario=counts, failures=bad,
                                                 note='one process per seed; exit status, end marker and stderr are checked')
        stats.faults['interpreter_shutdown_with_zombies_or_live_threads'] = len(cases)
        return viol


class _C36(C36):
    def execute(self, case, shutdown=False):
        if case.get('shutdown'):
            # replay of a shutdown scenario: run it in a child process and judge the exit
            out = Outcome()
            env = dict(os.environ)
            if case.get('malloc_debug'):
                env['PYTHONMALLOC'] = 'debug'
            p = subprocess.run([sys.executable, '-B', SHUTDOWN_SCRIPT, json.dumps(case)], stdout=subprocess.PIPE,
                               stderr=subprocess.PIPE, timeout=120, env=env)
            so, se = p.stdout.decode('utf-8', 'replace'), p.stderr.decode('utf-8', 'replace')
            out.digest = digest_of([case['scenario'], p.returncode])
            if 'END-MARKER' not in so or p.returncode != 0 or 'Fatal Python error' in se or (
                    case['scenario'] == 'blocked_in_c_joined_at_exit' and 'ATEXIT-JOINED' not in se):
                out.violate('C36.4', 'shutdown scenario %s: rc %d %s' % (case['scenario'], p.returncode, se[-200:]), 0)
            return out
        return C36.execute(self, case)


CHECK = _C36()
