"""C22 -- errno is passed to and from C calls and is thread-local.
Engine P: 2-4 Python threads (plus, in a third of the runs, a foreign thread) run errno
traffic through every call path while a seeded scheduler switches between them at
explicit points -- including while a thread is inside C between the errno restore and the
errno save of a call."""
import os, sys, gc, io
from sim import core, build
from sim.core import Outcome, PRNG, HarnessError, digest_of

CDEF = """
int probe(int newval);
int vprobe(int newval, ...);
int probe0(void);
int via_cb(int (*cb)(int), int pre, int *seen_after);
int via_xp(int pre, int *seen_after);
int via_cb_gil(int (*cb)(int), int pre, int *seen_after);
int via_xp_gil(int pre, int *seen_after);
extern "Python" int xp_body(int);
int gv;
int get_gv_seen(void);
"""
SRC = r"""
#include <errno.h>
int probe(int newval) { int e = errno; errno = newval; return e; }
int vprobe(int newval, ...) { int e = errno; errno = newval; return e; }
/* no argument at all: returns the errno it found and leaves a value derived from it */
int probe0(void) { int e = errno; errno = (int)(((unsigned)e) % 100000u) + 7; return e; }
int via_cb(int (*cb)(int), int pre, int *seen_after)
{ int r; errno = pre; r = cb(pre); *seen_after = errno; return r; }
static int xp_body(int);
int via_xp(int pre, int *seen_after)
{ int r; errno = pre; r = xp_body(pre); *seen_after = errno; return r; }
/* the C caller takes the GIL itself around the callback (extension-module style glue) */
int via_cb_gil(int (*cb)(int), int pre, int *seen_after)
{ int r; PyGILState_STATE st = PyGILState_Ensure(); errno = pre; r = cb(pre); *seen_after = errno;
  PyGILState_Release(st); errno = *seen_after; return r; }
int via_xp_gil(int pre, int *seen_after)
{ int r; PyGILState_STATE st = PyGILState_Ensure(); errno = pre; r = xp_body(pre); *seen_after = errno;
  PyGILState_Release(st); errno = *seen_after; return r; }
static __thread int gv_seen_tl = -1;
static int gv_store = 7;
int *gv_fetch(void) { gv_seen_tl = errno; errno = gv_seen_tl + 1000; return &gv_store; }
#define gv (*gv_fetch())
int get_gv_seen(void) { return gv_seen_tl; }
"""
ABI_CDEF = "int probe(int newval); int probe0(void); int via_cb(int (*cb)(int), int pre, int *seen_after);"
INT_MAX = 2 ** 31 - 1
VALUES = [0, 1, 2, 11, 13, 22, 34, 111, 4095, 65536, INT_MAX, INT_MAX - 1, -1, -7]
BAD_VALUES = [2 ** 31, 2 ** 40, -2 ** 31 - 1, 2 ** 64]
ERRVAL = -77


class Clobber(object):
    """an integer-like argument whose conversion runs Python code that makes a failing system call
    (so the real C errno is overwritten while cffi converts the arguments)"""

    def __init__(self, n):
        self.n = n

    def __int__(self):
        try:
            os.stat('/nonexistent/verif-c22-%d' % (self.n & 7))
        except OSError:
            pass
        return self.n

    __index__ = __int__


class Violation(Exception):
    def __init__(self, clause, detail):
        self.clause = clause
        self.detail = detail


class Run(object):
    def __init__(self, check, case, out, sched):
        self.check = check
        self.case = case
        self.out = out
        self.sched = sched
        self.S = {}              # client key -> shadow errno
        self.cur = {}            # client key -> stack of body scripts to run inside callbacks
        self.violation = None
        self.events = []
        self.drv = None
        c = check
        self.probes = {'api': c.mod.lib.probe, 'addr': c.addr_probe, 'dlopen': c.dl_lib.probe,
                       'abi': c.abi_lib.probe,
                       'variadic': lambda n: c.mod.lib.vprobe(n, c.iffi.cast('int', 5), c.iffi.cast('double', 1.5))}
        run = self

        def body_entry(pre):
            return run.run_body(pre)
        self.cb_i = c.iffi.callback("int(int)", body_entry, error=ERRVAL)
        self.cb_m = c.mod.ffi.callback("int(int)", body_entry, error=ERRVAL)
        c.mod.ffi.def_extern(error=ERRVAL, name='xp_body')(body_entry)

    def fail(self, clause, detail):
        if self.violation is None:
            self.violation = Violation(clause, detail)

    def who(self):
        c = self.sched.me()
        if c is None:
            raise HarnessError('errno op outside a client thread')
        return c.id

    def get(self, w, flavour):
        v = self.check.iffi.errno if flavour == 0 else self.check.mod.ffi.errno
        self.events.append(('get', w, v))
        if v != self.S[w]:
            self.fail('C22.2' if self.lastwrite.get(w) != 'set' else 'C22.1',
                      'thread %s: ffi.errno is %d, its own errno should be %d (last change: %s)'
                      % (w, v, self.S[w], self.lastwrite.get(w)))
            self.S[w] = v

    lastwrite = None

    def set(self, w, v, flavour):
        try:
            if flavour == 0:
                self.check.iffi.errno = v
            else:
                self.check.mod.ffi.errno = v
        except OverflowError:
            if -2 ** 31 <= v <= INT_MAX:
                self.fail('C22.1', 'ffi.errno = %d raised OverflowError' % v)
            self.out.fault('errno_overflow_rejected')
            return
        if not (-2 ** 31 <= v <= INT_MAX):
            self.out.unspec('out_of_range_errno_accepted')
            return
        self.S[w] = v
        self.lastwrite[w] = 'set'

    def probe(self, w, path, n):
        if path.endswith('0'):
            # functions without arguments (nothing to convert before the call)
            c = self.check
            fn = {'api0': c.mod.lib.probe0, 'addr0': c.addr_probe0, 'dlopen0': c.dl_lib.probe0,
                  'abi0': c.abi_lib.probe0}[path]
            got = fn()
            n = (got & 0xffffffff) % 100000 + 7
        elif path.endswith('_conv'):
            # same call path, but converting the argument clobbers the C errno first
            got = self.probes[path[:-5]](Clobber(n))
            self.out.fault('argument_conversion_clobbers_errno')
        else:
            got = self.probes[path](n)
        self.events.append(('probe', w, path, got))
        if got != self.S[w]:
            self.fail('C22.1' if self.lastwrite.get(w) == 'set' else 'C22.3',
                      'thread %s: C function called through %s saw errno %d, expected %d (last change: %s)'
                      % (w, path, got, self.S[w], self.lastwrite.get(w)))
        self.S[w] = n
        self.lastwrite[w] = 'C'
        self.out.probe('call_path_' + path)

    def readgv(self, w, how='read', val=0):
        lib = self.check.mod.lib
        if how == 'write':
            lib.gv = val
            self.check.gv_value = val
            v = val
        elif how == 'addr':
            v = self.check.mod.ffi.addressof(lib, 'gv')[0]
        else:
            v = lib.gv
        seen = lib.get_gv_seen()      # thread-local in the helper; this call restores/saves errno too
        if v != self.check.gv_value:
            self.fail('C22.1', 'lib.gv reads %r, expected %r' % (v, self.check.gv_value))
        if seen != self.S[w]:
            self.fail('C22.1', 'thread %s: the fetch function of global variable gv saw errno %d, expected %d'
                      % (w, seen, self.S[w]))
        self.S[w] = self.S[w] + 1000 if seen == self.S[w] else seen + 1000
        self.lastwrite[w] = 'C'
        self.out.probe('global_variable_fetch_path')

    def steps(self, w, script, depth):
        for st in script:
            if self.violation is not None:
                return
            k = st[0]
            if k == 'get':
                self.get(w, st[1])
            elif k == 'set':
                self.set(w, st[1], st[2])
            elif k == 'probe':
                self.probe(w, st[1], st[2])
            elif k == 'gv':
                if self.S[w] + 1000 <= INT_MAX and self.S[w] >= -2 ** 31:
                    self.readgv(w, st[1] if len(st) > 1 else 'read', st[2] if len(st) > 2 else 0)
            elif k == 'pt':
                self.sched.point('pt')
            elif k == 'cb' and depth < 2:
                self.callcb(w, st[1], st[2], st[3], st[4], depth)

    def callcb(self, w, path, pre, body, raises, depth):
        self.cur.setdefault(w, []).append((body, raises, depth + 1, pre))
        seen = self.check.iffi.new('int *', -12345)
        if path == 'cb_addr':
            r = self.check.addr_via_cb(self.cb_m, pre, seen)      # libffi call of a C function that calls back
        elif path == 'cb_i':
            r = self.check.mod.lib.via_cb(self.cb_i, pre, seen)
        elif path == 'cb_m':
            r = self.check.mod.lib.via_cb(self.cb_m, pre, seen)
        elif path == 'cb_dl':
            r = self.check.dl_lib.via_cb(self.cb_i, pre, seen)
        elif path == 'cb_gil':
            r = self.check.mod.lib.via_cb_gil(self.cb_i, pre, seen)
        elif path == 'xp_gil':
            r = self.check.mod.lib.via_xp_gil(pre, seen)
        else:
            r = self.check.mod.lib.via_xp(pre, seen)
        self.cur[w].pop()
        want_r = ERRVAL if raises else pre + 1
        if r != want_r:
            self.fail('C22.2', 'thread %s: callback through %s returned %d, expected %d' % (w, path, r, want_r))
        # C read errno right after the callback returned: it must be what the body left in ffi.errno
        if seen[0] != self.S[w]:
            self.fail('C22.2', 'thread %s: after a callback (%s) C saw errno %d, the callback had left %d'
                      % (w, path, seen[0], self.S[w]))
        self.lastwrite[w] = 'cb'
        self.out.probe('callback_path_' + path)
        if depth >= 1:
            self.out.probe('nested_callback')

    def run_body(self, pre):
        """inside a callback (entered from C): the thread's errno shadow now holds what C had"""
        w = self.who()
        stack = self.cur.get(w)
        if not stack:
            self.fail('C22.3', 'callback body ran in thread %d which made no callback call' % w)
            return 0
        body, raises, depth, want_pre = stack[-1]
        if pre != want_pre:
            self.fail('C22.3', 'thread %s: callback received argument %d, expected %d' % (w, pre, want_pre))
        self.S[w] = pre
        self.lastwrite[w] = 'C'
        if self.sched.is_holder_thread() and len([c for c in self.sched.clients if c.status == 'R']) > 1:
            self.out.probe('other_threads_runnable_while_inside_callback')
        self.steps(w, body, depth)
        if raises:
            self.out.fault('callback_body_raises')
            raise RuntimeError('injected callback failure')
        return pre + 1

    # ---- a thread whose first contact with cffi is this very callback ----
    def oneshot(self, w, pre, body, xp):
        self.oneshot_n = getattr(self, 'oneshot_n', 0) + 1
        key = 'oneshot%d' % self.oneshot_n
        self.S[key] = None
        self.cur[key] = [([st for st in body if st[0] not in ('pt', 'cb')], False, 2, pre)]
        self.oneshot_key = key
        seen = self.check.iffi.new('int *', -12345)
        r = self.check.ftmod.lib.ft_oneshot(self.drv.cb, pre, xp, seen)
        self.oneshot_key = None
        if self.violation is None:
            if r != pre + 1:
                self.fail('C22.2', 'callback in a brand-new foreign thread returned %d, expected %d' % (r, pre + 1))
            elif seen[0] != self.S.get(key):
                self.fail('C22.2', 'brand-new foreign thread: after its first callback C saw errno %d, the callback '
                          'had left %r' % (seen[0], self.S.get(key)))
        self.out.probe('first_callback_of_a_brand_new_foreign_thread')

    # ---- two brand-new foreign threads, both past the callback entry before either holds the GIL ----
    def gated_pair(self, w, pre_x, pre_y, xp_x, xp_y, first, body_x, body_y, warm_x=0, warm_y=0):
        self.pair_n = getattr(self, 'pair_n', 0) + 1
        kx, ky = 'pairX%d' % self.pair_n, 'pairY%d' % self.pair_n
        filt = lambda b: [st for st in b if st[0] not in ('pt', 'cb', 'gv')]
        self.S[kx] = self.S[ky] = None
        self.cur[kx] = [(filt(body_x), False, 2, pre_x)]
        self.cur[ky] = [(filt(body_y), False, 2, pre_y)]
        self.pair_keys = {-98: kx, -97: ky}
        out4 = self.drv.gated_pair(-98, -97, pre_x, pre_y, xp_x, xp_y, first, -96 if warm_x else 0, -95 if warm_y else 0)
        if warm_x or warm_y:
            self.out.probe('gated_callback_of_a_thread_that_already_has_a_thread_state')
        self.pair_keys = None
        self.out.fault('two_callbacks_entered_before_either_holds_the_GIL')
        if self.violation is None:
            for name, k, pre, res, seen in (('first', kx, pre_x, out4[0], out4[1]), ('second', ky, pre_y, out4[2], out4[3])):
                if res != pre + 1:
                    self.fail('C22.3', 'overlapping callback entries: the %s-started thread\'s callback returned %d, '
                              'expected %d' % (name, res, pre + 1))
                elif seen != self.S.get(k):
                    self.fail('C22.3', 'overlapping callback entries: after its callback the %s-started thread saw '
                              'errno %d in C, its callback had left %r' % (name, seen, self.S.get(k)))

    # ---- foreign thread body (ftdriver): same scripts, own shadow ----
    def foreign_body(self, who, arg):
        if who in (-96, -95):        # warm-up callback of a gated thread
            return arg + 1
        if who in (-98, -97):
            key = self.pair_keys[who]
            self.S[key] = arg
            self.lastwrite[key] = 'C'
            # the very first thing the body does is to read its own errno
            self.get(key, 0)
            self.steps(key, self.cur[key][-1][0], 2)
            return arg + 1
        if who == -99:
            key = self.oneshot_key
            self.S[key] = arg            # C set errno = arg just before calling back
            self.lastwrite[key] = 'C'
            self.steps(key, self.cur[key][-1][0], 2)
            return arg + 1
        c = self.sched.me()
        w = c.id
        if w not in self.S:
            self.S[w] = arg
        stack = self.cur.get(w)
        self.S[w] = arg              # the driver set errno = arg just before calling back
        self.lastwrite[w] = 'C'
        if stack:
            body, raises, depth, want = stack[-1]
            self.steps(w, body, 1)
        self.out.probe('foreign_thread_callback')
        return arg + 1

    def controller(self, cid, script):
        def fn(c):
            w = c.id
            self.S[w] = None
            # a new thread's shadow starts at 0 (checked below)
            v0 = self.check.iffi.errno
            if v0 != 0:
                self.fail('C22.3', 'thread %s starts with ffi.errno == %d (another thread\'s value leaked?)' % (w, v0))
            self.S[w] = v0
            F = None
            for st in script:
                if self.violation is not None:
                    break
                if st[0] == 'oneshot':
                    if self.drv is not None:
                        self.oneshot(w, st[1], st[2], st[3])
                    continue
                if st[0] == 'gatedpair':
                    if self.drv is not None:
                        self.gated_pair(w, *st[1:])
                    continue
                if st[0] == 'fcall':
                    if self.drv is None:
                        continue
                    if F is None:
                        F = self.drv.start()
                        self.sched.point('started')
                    fw = F.client.id
                    self.cur[fw] = [(st[2], False, 1, st[1])]
                    self.drv.post_call(F, st[1], 1, 3 + st[3])
                    self.sched.point('posted')
                    self.drv.wait_idle(F)
                    seen = self.check.ftmod.lib.ft_seen_after(F.fid)
                    if self.violation is None and seen != self.S.get(fw):
                        self.fail('C22.2', 'foreign thread: after the callback C saw errno %d, the callback had left %r'
                                  % (seen, self.S.get(fw)))
                    self.cur[fw] = []
                else:
                    self.steps(w, [st], 0)
            if F is not None:
                self.drv.wait_idle(F)
                self.drv.exit(F)
        return fn


class C22(core.Check):
    pid = 'C22'
    level = 'exploration'
    engine = 'P'
    quick_runs = 6000
    thorough_budget_s = 900
    chunk = 100
    history_dependent = True
    crash_clause = 'C22.3'
    rule = ('one run = 2-4 Python threads (plus a foreign thread in a third of the runs), each executing a seeded '
            'script of errno operations (ffi.errno get/set on two FFI flavours, C calls through the API-mode '
            'wrapper, a libffi function pointer, an in-line dlopen and an out-of-line ABI module, callbacks through '
            'libffi closures and extern "Python" with bodies that themselves get/set/call/nest, reads of a '
            'global variable whose fetch function touches errno) under a seeded schedule (uniform / sticky / PCT) '
            'with switch points between ops and inside callback bodies; every observation is compared with a '
            'one-integer-per-thread model. non-trivial = at least two threads made observations and at least one '
            'context switch happened; distinct = digest of the (client, point) trace and observations. '
            'Also: pairs of brand-new foreign threads held at a gate right before they take the GIL, C callers '
            'that hold the GIL, functions without arguments; and a second phase that runs the start-up simulator '
            'of C28 (engine C) to observe the errno with which cffi_call_python is entered on calls into an '
            'embedded library, including the call that starts Python')
    components = {
        'real': ['_cffi_backend save_errno/restore_errno, b_get_errno/b_set_errno, invoke_callback, cffi_call_python, '
                 'cglob accessors (private sim build; USE__THREAD on and off)',
                 'generated API-mode wrappers (_cffi_restore_errno/_cffi_save_errno) of a helper module built from the cffi under test',
                 'real C errno of real threads',
                 'second phase: the generated embedding start-up code (_embedding.h: _cffi_start_and_call_python, '
                 '_cffi_start_python) of two embedded libraries'],
        'simulated': ['thread scheduling (baton passing)', 'second phase: coroutine scheduling of the start-up code'],
        'stub': ['second phase: CPython (its start-up and the init code clobber errno) and cffi_call_python (records '
                 'the errno it is entered with)'],
    }
    assumptions = ['what the C errno holds between cffi calls is not asserted (CPython may clobber it); only values '
                   'passed through cffi are']

    def prepare(self, tier):
        self.dirs = {'T': build.backend(True), 'N': build.backend(False)}
        from sim import ftdriver
        self.h = {}
        for k, d in self.dirs.items():
            self.h[k] = (build.helper_module('_verif_errno', CDEF, SRC, d),
                         build.helper_module('_verif_errno_abi', ABI_CDEF, None, d, source_none=True),
                         ftdriver.build_helper(d))
        self.active = None

    def activate(self, variant):
        if self.active is not None:
            if self.active != variant:
                raise HarnessError('backend variant %s requested after %s' % (variant, self.active))
            return
        build.activate(self.dirs[variant])
        for d in self.h[variant]:
            sys.path.insert(0, d)
        import cffi, _verif_errno, _verif_errno_abi, _verif_ft
        from sim import pysched, ftdriver
        self.pysched, self.ftdriver = pysched, ftdriver
        self.mod = _verif_errno
        self.ftmod = _verif_ft
        self.iffi = cffi.FFI()
        self.iffi.cdef(ABI_CDEF)
        self.dl_lib = self.iffi.dlopen(_verif_errno.__file__)
        self.abi_lib = _verif_errno_abi.ffi.dlopen(_verif_errno.__file__)
        self.addr_probe = self.mod.ffi.addressof(self.mod.lib, 'probe')
        self.addr_probe0 = self.mod.ffi.addressof(self.mod.lib, 'probe0')
        self.addr_via_cb = self.mod.ffi.addressof(self.mod.lib, 'via_cb')
        self.active = variant
        self.next_fid = 0
        self.gv_value = 7

    # ------------------------------------------------------------------
    def gen_steps(self, rng, n, depth):
        out = []
        for _ in range(n):
            k = rng.weighted([('get', 6), ('set', 6), ('probe', 8), ('gv', 2), ('pt', 5),
                              ('cb', 4 if depth < 2 else 0), ('badset', 1)])
            if k == 'get':
                out.append(['get', rng.below(2)])
            elif k == 'set':
                out.append(['set', rng.choice(VALUES), rng.below(2)])
            elif k == 'badset':
                out.append(['set', rng.choice(BAD_VALUES), rng.below(2)])
            elif k == 'probe':
                out.append(['probe', rng.choice(['api', 'addr', 'dlopen', 'abi', 'variadic', 'api_conv', 'addr_conv', 'dlopen_conv',
                                        'api0', 'addr0', 'dlopen0', 'abi0']),
                            rng.choice(VALUES)])
            elif k == 'cb':
                out.append(['cb', rng.choice(['cb_i', 'cb_m', 'cb_dl', 'cb_addr', 'xp', 'cb_gil', 'xp_gil']), rng.choice(VALUES[:10]),
                            self.gen_steps(rng, rng.randint(0, 4), depth + 1), rng.chance(0.12)])
            elif k == 'gv':
                out.append(['gv', rng.choice(['read', 'read', 'write', 'addr']), rng.randint(-100, 100)])
            else:
                out.append([k])
        return out

    def generate(self, rng, idx, tier):
        nth = rng.weighted([(2, 5), (3, 4), (4, 2)])
        threads = [self.gen_steps(rng, rng.randint(2, 12), 0) for _ in range(nth)]
        foreign = rng.chance(0.33)
        if foreign:
            for _ in range(rng.randint(1, 3)):
                pos = rng.randint(0, len(threads[0]))
                threads[0].insert(pos, ['fcall', rng.choice(VALUES[:10]), self.gen_steps(rng, rng.randint(0, 4), 1),
                                        rng.below(2)])
            for _ in range(rng.randint(0, 2)):
                t = rng.below(len(threads))
                px, py = rng.sample(VALUES[1:10], 2)
                threads[t].insert(rng.randint(0, len(threads[t])),
                                  ['gatedpair', px, py, rng.below(2), rng.below(2), rng.below(2),
                                   self.gen_steps(rng, rng.randint(0, 3), 2), self.gen_steps(rng, rng.randint(0, 3), 2),
                                   rng.below(2), rng.below(2)])
            for _ in range(rng.randint(0, 2)):
                t = rng.below(len(threads))
                threads[t].insert(rng.randint(0, len(threads[t])),
                                  ['oneshot', rng.choice(VALUES[1:10]), self.gen_steps(rng, rng.randint(1, 4), 2), rng.below(2)])
        variant = 'T' if (idx // self.chunk) % 2 == 0 else 'N'
        return dict(threads=threads, foreign=foreign, strategy=rng.choice(['random', 'sticky', 'pct']),
                    stick=rng.choice([0.5, 0.8, 0.95]), pct_changes=rng.randint(1, 3), sched_seed=rng.u64(),
                    variant=variant)

    def execute(self, case):
        self.activate(case['variant'])
        ps = self.pysched
        out = Outcome()
        sched = ps.Sched(PRNG(case['sched_seed']), case.get('strategy', 'random'), decisions=case.get('schedule'),
                         stick=case.get('stick', 0.8), pct_changes=case.get('pct_changes', 2), est_len=150)
        sched.keep_threads = True
        run = Run(self, case, out, sched)
        run.lastwrite = {}
        olderr = sys.stderr
        sys.stderr = io.StringIO()
        try:
            if case.get('foreign'):
                run.drv = self.ftdriver.Driver(self.ftmod, sched, run.foreign_body, None, first_id=self.next_fid)
            for cid, script in enumerate(case['threads']):
                sched.add_client(run.controller(cid, script))
            verdict = sched.run()
            if run.violation is not None:
                out.violate(run.violation.clause, run.violation.detail, sched.steps)
            elif verdict == 'deadlock':
                out.harness('deadlock in the errno workload: %r' % (sched.deadlock_info,))
            elif verdict == 'stepcap':
                out.harness('step cap')
            for c in sched.clients:
                if c.error is not None and out.verdict == 'ok':
                    out.harness('client %d raised %r' % (c.id, c.error))
            if verdict == 'done':
                if run.drv is not None:
                    run.drv.teardown()
                    self.next_fid = run.drv.next_id if run.drv.next_id < 50 else 0
                sched.release_threads()
        finally:
            sys.stderr = olderr
        out.steps = sched.steps
        out.schedule = sched.schedule
        out.digest = digest_of([sched.trace, run.events])
        out.nontrivial = sched.switches > 0 and len(case['threads']) >= 2
        if case.get('strategy') == 'pct':
            out.fault('thread_stall_pct')
        out.sample = dict(variant=case['variant'], strategy=case.get('strategy'), threads=case['threads'][:3],
                          switches=sched.switches, trace_head=['%d:%s' % t for t in sched.trace[:30]])
        return out

    def shrink_candidates(self, case):
        th = case['threads']
        if len(th) > 1:
            for i in range(len(th)):
                yield dict(case, threads=th[:i] + th[i + 1:])
        for i in range(len(th)):
            for j in range(len(th[i])):
                nt = [list(x) for x in th]
                del nt[i][j]
                yield dict(case, threads=nt)
        for i in range(len(th)):
            for j, st in enumerate(th[i]):
                if st[0] == 'cb' and st[3]:
                    for k in range(len(st[3])):
                        nt = [list(x) for x in th]
                        nt[i][j] = [st[0], st[1], st[2], st[3][:k] + st[3][k + 1:], st[4]]
                        yield dict(case, threads=nt)
        s = case.get('schedule')
        if s:
            yield dict(case, schedule=s[:len(s) // 2])

    def signature(self, case, out):
        return '%s' % (out.clause,)

    # ------------------------------------------------------------------
    # Second phase (engine C): the errno of a C caller of an *embedded* library's extern "Python" function
    # must reach cffi_call_python() also on the call that starts Python and runs the init code, whatever
    # the interleaving of the start-up.  Runs the start-up simulator of C28 (real generated _embedding.h
    # code, stub CPython whose start-up clobbers errno) and reads its errno observation.
    def _embed_sim(self, tier):
        from checks import c28
        sim = c28.CHECK
        if not getattr(sim, 'exe', None):
            sim.prepare(tier)
        return sim

    def post_batch(self, tier, stats):
        verif_seed = int(os.environ.get('VERIF_SEED', '0') or 0)
        sim = self._embed_sim(tier)
        n = 6000 if tier == 'quick' else 60000
        rng = PRNG(core.derive(verif_seed, 'C22', 'embed'))
        cases = [sim.generate(rng.fork(i), i, tier) for i in range(n)]
        viol = []
        bad = calls = 0
        for lo in range(0, n, 2000):
            part = cases[lo:lo + 2000]
            for j, (case, o) in enumerate(zip(part, sim.execute_many(part))):
                k = o.unspecified.get('entry_errno_differs_from_callers', 0)
                if o.verdict == 'harness':
                    raise HarnessError('start-up simulator: %s' % o.detail)
                if k:
                    bad += 1
                    if len(viol) < 2:
                        c2 = dict(case, embed=True, schedule=o.schedule, run_index='E%d' % (lo + j))
                        outd = dict(verdict='violation', clause='C22.2', op=None, digest=o.digest,
                                    detail='embedded library: %d call(s) of an extern "Python" function reached '
                                           'cffi_call_python() with an errno that is not the C caller\'s (the start-up '
                                           'of Python ran in between)' % k)
                        path = core.write_replay(self, c2, outd, tier, verif_seed, tag='embed')
                        viol.append((c2, outd, path))
        stats.extra['embedded_startup_errno'] = dict(
            runs=n, runs_with_mismatch=bad,
            note='engine C (start-up simulator of C28): errno of the C caller vs errno at the entry of '
                 'cffi_call_python, for every call including the one that initializes Python')
        return viol


class _C22(C22):
    def execute(self, case):
        if case.get('embed'):
            sim = self._embed_sim('quick')
            o = sim.execute(dict((k, v) for k, v in case.items() if k not in ('embed', 'run_index')))
            out = Outcome()
            out.digest = o.digest
            out.steps = o.steps
            k = o.unspecified.get('entry_errno_differs_from_callers', 0)
            if o.verdict == 'harness':
                return out.harness(o.detail)
            if k:
                out.violate('C22.2', 'embedded library: %d call(s) reached cffi_call_python() with an errno that is '
                            'not the C caller\'s' % k, 0)
            return out
        return C22.execute(self, case)


CHECK = _C22()
