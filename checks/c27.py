"""C27 -- non-aggregate ctypes are canonical over any history (engine H)."""
import os, sys, gc, json
from sim import core, build, hist
from sim.core import Outcome, PRNG, HarnessError, digest_of

CDEF = ("struct s0 { int a; }; struct s1 { long b; struct s0 *p; }; union u0 { int x; char y; };"
        "enum e0 { EA0, EB0 }; typedef int myint_t; typedef struct s0 *s0ptr_t;"
        # array lengths that need more than 7 bits in one of the bytes of the words of a generated module
        "typedef int arr200_t[200]; typedef char *arrp255_t[255]; typedef unsigned short arr1000_t[1000];"
        "typedef double arr40000_t[40000]; typedef signed char arr128_t[128]; typedef long arr127_t[127];"
        "typedef int arr65535_t[65535]; typedef char arr8388613_t[8388613];")
TDEFS = {'myint_t': ['prim', 'int'], 's0ptr_t': ['ptr', ['agg', 'struct s0']],
         'arr200_t': ['arr', ['prim', 'int'], 200], 'arrp255_t': ['arr', ['ptr', ['prim', 'char']], 255],
         'arr1000_t': ['arr', ['prim', 'unsigned short'], 1000], 'arr40000_t': ['arr', ['prim', 'double'], 40000],
         'arr128_t': ['arr', ['prim', 'signed char'], 128], 'arr127_t': ['arr', ['prim', 'long'], 127],
         'arr65535_t': ['arr', ['prim', 'int'], 65535], 'arr8388613_t': ['arr', ['prim', 'char'], 8388613]}
ARR_TDEFS = sorted(k for k in TDEFS if TDEFS[k][0] == 'arr')
# two generated modules that declare no type at all, only a function and integer constants -- with
# different values: a type string such as "int[BUFLEN]" means a different C type in each of them
CDEF_CONST = ["#define BUFLEN 16\n#define NN 3\n#define BIG 300\nint only_func(int);",
              "#define BUFLEN 32\n#define NN 3\n#define BIG 200\nint only_func(int);"]
CONSTS = {'cmod0': {'BUFLEN': 16, 'NN': 3, 'BIG': 300}, 'cmod1': {'BUFLEN': 32, 'NN': 3, 'BIG': 200}}


def uses_const(d):
    k = d[0]
    if k == 'arr':
        return isinstance(d[2], str) or uses_const(d[1])
    if k == 'ptr':
        return uses_const(d[1])
    if k == 'func':
        return uses_const(d[1]) or any(uses_const(a) for a in d[2])
    return False


def resolve_consts(d, consts):
    k = d[0]
    if k == 'arr':
        n = consts[d[2]] if isinstance(d[2], str) else d[2]
        return ['arr', resolve_consts(d[1], consts), n]
    if k == 'ptr':
        return ['ptr', resolve_consts(d[1], consts)]
    if k == 'func':
        return ['func', resolve_consts(d[1], consts), [resolve_consts(a, consts) for a in d[2]]] + list(d[3:])
    return d
PRIMS = ['int', 'long', 'char', 'double', 'unsigned short', 'signed char', 'float', 'uint64_t']
AGGS = ['struct s0', 'struct s1', 'union u0', 'enum e0']


class Violation(Exception):
    def __init__(self, clause, detail):
        self.clause = clause
        self.detail = detail


# other spellings of the same primitive type (accepted by both parsers; qualifiers do not make a new ctype)
ALIASES = {
    'int': ['int', 'signed int', 'signed', 'const int', 'int const', 'volatile int'],
    'long': ['long', 'long int', 'signed long', 'signed long int', 'long signed', 'const long'],
    'unsigned short': ['unsigned short', 'unsigned short int', 'short unsigned', 'short unsigned int',
                       'const unsigned short'],
    'signed char': ['signed char', 'const signed char'],
    'char': ['char', 'const char', 'char const'],
    'double': ['double', 'const double'],
    'uint64_t': ['uint64_t', 'const uint64_t'],
}


# ---- type descriptions (JSON-able) -> C type strings ----
def render(d, inner='', spell=None):
    """`spell` (an int) selects among equivalent spellings of the primitive types"""
    k = d[0]
    if k == 'prim' and spell is not None and d[1] in ALIASES:
        al = ALIASES[d[1]]
        return al[(spell + len(inner)) % len(al)] + ((' ' + inner) if inner else '')
    if k in ('prim', 'agg', 'tdef'):
        return d[1] + ((' ' + inner) if inner else '')
    if k == 'void':
        return 'void' + ((' ' + inner) if inner else '')
    if k == 'ptr':
        if d[1][0] in ('arr', 'func'):
            return render(d[1], '(*%s)' % inner, spell)
        return render(d[1], '*' + inner, spell)
    if k == 'arr':
        return render(d[1], inner + '[%s]' % ('' if d[2] is None else d[2]), spell)
    if k == 'func':
        args = ', '.join(render(a, '', None if spell is None else spell + 1 + j) for j, a in enumerate(d[2]))
        if d[3]:
            args = args + ', ...' if args else '...'
        return render(d[1], '(*%s)(%s)' % (inner, args or 'void'), spell)
    raise HarnessError('bad desc %r' % (d,))


def is_variadic(ct):
    """variadic-ness of a function-pointer ctype, from its spelling: the type's own argument list is
    the parenthesis that follows its own '(*)' marker (the first one in the name; function-pointer
    result types wrap around it, function-pointer arguments come after it).  The 'ellipsis'
    attribute cannot be used: it is True for every signature libffi cannot call."""
    name = ct.cname
    i = name.find('(*)')
    if i < 0:
        return name.endswith('...)')
    j = i + 3
    depth = 0
    for k in range(j, len(name)):
        if name[k] == '(':
            depth += 1
        elif name[k] == ')':
            depth -= 1
            if depth == 0:
                return name[j:k].rstrip().endswith('...')
    return False


def uses_agg(d):
    k = d[0]
    if k in ('agg', 'tdef'):
        return d[1] != 'myint_t' and d[1] not in ARR_TDEFS
    if k in ('prim', 'void'):
        return False
    if k == 'func':
        return uses_agg(d[1]) or any(uses_agg(a) for a in d[2])
    return uses_agg(d[1])


def needs_cdef(d):
    k = d[0]
    if k in ('agg', 'tdef'):
        return True
    if k in ('prim', 'void'):
        return False
    if k == 'func':
        return needs_cdef(d[1]) or any(needs_cdef(a) for a in d[2])
    return needs_cdef(d[1])


def gen_desc(rng, depth, allow_agg, top=True):
    """random derived type; value-complete unless directly under a pointer"""
    r = rng.random()
    if depth <= 0 or r < 0.18:
        if allow_agg and rng.chance(0.3):
            if rng.chance(0.25):
                if rng.chance(0.4):
                    return ['tdef', rng.choice(ARR_TDEFS)]
                return ['tdef', rng.choice(['myint_t', 's0ptr_t'])]
            return ['agg', rng.choice(AGGS)]
        return ['prim', rng.choice(PRIMS)]
    if r < 0.62:
        if rng.chance(0.12):
            return ['ptr', ['void']]
        return ['ptr', gen_desc(rng, depth - 1, allow_agg, False)]
    if r < 0.82:
        item = gen_desc(rng, depth - 1, allow_agg, False)
        n = None if (top and rng.chance(0.3)) else (0 if rng.chance(0.15) else rng.randint(1, 5))
        if n and rng.chance(0.1):
            n = rng.choice([128, 129, 200, 255, 256, 1000, 32767, 32768, 40000, 65535, 65536, (1 << 23) + 5])
        if n and top and rng.chance(0.08):
            # lengths that do not fit 32 bits (types only: never instantiated)
            n = rng.choice([2 ** 31, 2 ** 32, 2 ** 32 + rng.randint(1, 5), 3 * 10 ** 9, 2 ** 31 - 1])
        return ['arr', item, n]
    nargs = rng.randint(0, 3)
    args = []
    for _ in range(nargs):
        a = gen_desc(rng, min(depth - 1, 1), allow_agg, False)
        if a[0] == 'arr':
            a = ['ptr', a[1]]
        if a[0] == 'tdef' and a[1] in ARR_TDEFS:
            a = ['ptr', TDEFS[a[1]][1]]
        args.append(a)
    res = ['void'] if rng.chance(0.2) else gen_desc(rng, min(depth - 1, 1), allow_agg, False)
    if res[0] == 'arr':
        res = ['ptr', res[1]]
    if res[0] == 'tdef' and res[1] in ARR_TDEFS:
        res = ['prim', 'int']
    if res[0] == 'agg' and res[1].startswith('union'):
        res = ['prim', 'int']
    ell = bool(args) and rng.chance(0.2)
    if rng.chance(0.25):
        # an explicit calling convention (honoured by the backend-constructor route only): the three
        # ABI numbers libffi accepts here for a prepared cif, any small number for a variadic type
        return ['func', res, args, ell, rng.choice([2, 3, 4]) if not ell else rng.choice([1, 2, 3, 4, 5])]
    return ['func', res, args, ell]


def total_items(d):
    """number of scalar items an instance of the array type would hold (0: not an array / open)"""
    if d[0] == 'tdef':
        d = TDEFS[d[1]]
    if d[0] != 'arr':
        return 1
    if d[2] is None:
        return 0
    return d[2] * total_items(d[1])


def fix_open_arrays(d, top=True):
    """open-length arrays only at top level; the whole type stays far below the size cffi refuses
    ("array size would overflow a Py_ssize_t")"""
    k = d[0]
    if k == 'arr':
        n = d[2]
        if n is None and not top:
            n = 3
        inner = fix_open_arrays(d[1], False)
        if isinstance(n, int) and n > 1 and total_items(inner) * n >= 2 ** 56:
            n = 3
        return ['arr', inner, n]
    if k == 'ptr':
        return ['ptr', fix_open_arrays(d[1], False)]
    if k == 'func':
        return ['func', fix_open_arrays(d[1], False), [fix_open_arrays(a, False) for a in d[2]], d[3]] + list(d[4:])
    return d


class Run(object):
    def __init__(self, check, case, out):
        self.check = check
        self.case = case
        self.out = out
        self.be = check.backend
        self.cffi = check.cffi
        self.ffis = []           # list of [kind, ffi]; kinds: inline / cffi (C-level FFI()) / module
        self.slots = []          # list of (ctype, tag)
        self.cycled = []         # [desc, ffi-kind] of ctypes parked in garbage cycles
        self.rebuilt = []        # descs rebuilt by a gremlin: verified again after the collection
        self.trace = []
        self.opi = 0
        self.seen_dead = set()
        self.gv = None
        self.salt = 0
        for kind in case['ffis']:
            self.ffis.append([kind, self.make_ffi(kind)])

    def make_ffi(self, kind):
        if kind == 'inline':
            f = self.cffi.FFI()
            f.cdef(CDEF)
            return f
        if kind == 'cffi':
            return self.be.FFI()
        if kind.startswith('cmod'):
            return self.check.cmods[int(kind[-1])].ffi
        return self.check.modules[int(kind[-1])].ffi

    def pick_ffi(self, k, need_agg):
        c = [i for i, (kind, f) in enumerate(self.ffis) if not (need_agg and (kind == 'cffi' or kind.startswith('cmod')))]
        if not c:
            return None
        return self.ffis[c[k % len(c)]]

    # ---- structural description of a live ctype ----
    def describe(self, ct, memo):
        i = id(ct)
        if i in memo:
            return memo[i][0]
        k = ct.kind
        if k == 'primitive':
            d = ('prim', ct.cname)
        elif k == 'void':
            d = ('void',)
        elif k in ('struct', 'union', 'enum'):
            d = ('agg', i)
        elif k == 'pointer':
            d = ('ptr', self.describe(ct.item, memo))
        elif k == 'array':
            d = ('arr', self.describe(ct.item, memo), ct.length)
        elif k == 'function':
            # NB: the 'ellipsis' attribute of a ctype is True whenever the type has no prepared
            # cif, which includes non-variadic signatures libffi cannot call (e.g. a union passed
            # by value).  The C type's own spelling is authoritative for variadic-ness.
            d = ('func', self.describe(ct.result, memo), tuple(self.describe(a, memo) for a in ct.args),
                 is_variadic(ct), ct.abi)
        else:
            raise HarnessError('unknown ctype kind %r' % k)
        memo[i] = (d, ct)
        return d

    def check_canonical(self, where):
        memo = {}
        for ct, tag in self.slots:
            self.describe(ct, memo)
        bydesc = {}
        for i, (d, ct) in memo.items():
            if d[0] == 'agg':
                continue
            o = bydesc.get(d)
            if o is None:
                bydesc[d] = ct
            elif o is not ct:
                raise Violation('C27.1', 'two live ctype objects describe the same C type %r '
                                '(ids differ; %s)' % (ct.cname, where))
        n = len(bydesc)
        memo.clear()
        bydesc.clear()
        return n

    # ---- building ----
    def shape_mismatch(self, ct, d, abis=False):
        """does the ctype that was handed out describe the C type that was asked for?  (one object
        standing for two different C types is the other half of 'same object iff same type')"""
        k = d[0]
        if k == 'prim':
            return None if (ct.kind == 'primitive' and ct.cname == d[1]) else 'primitive %r' % d[1]
        if k == 'void':
            return None if ct.kind == 'void' else 'void'
        if k == 'tdef':
            return self.shape_mismatch(ct, TDEFS[d[1]], abis)
        if k == 'agg':
            return None
        if k == 'ptr':
            if ct.kind != 'pointer':
                return 'a pointer'
            return self.shape_mismatch(ct.item, d[1], abis)
        if k == 'arr':
            if ct.kind != 'array':
                return 'an array'
            if ct.length != d[2]:
                return 'an array of length %r (got length %r)' % (d[2], ct.length)
            return self.shape_mismatch(ct.item, d[1], abis)
        if k == 'func':
            if ct.kind != 'function':
                return 'a function pointer'
            if len(ct.args) != len(d[2]):
                return 'a function of %d arguments' % len(d[2])
            if is_variadic(ct) != bool(d[3]):
                return 'a %svariadic function' % ('' if d[3] else 'non-')
            if abis and ct.abi != self.abi_of(d):
                return 'a function with ABI %d (got ABI %d)' % (self.abi_of(d), ct.abi)
            for a, da in zip(ct.args, d[2]):
                m = self.shape_mismatch(a, da, abis)
                if m:
                    return m
            return self.shape_mismatch(ct.result, d[1], abis)
        return None

    def abi_of(self, d):
        """ABI number a function desc asks for on the backend-constructor route"""
        if len(d) > 4 and (d[3] or d[4] in self.check.abis):
            return d[4]
        return self.be.FFI_DEFAULT_ABI

    def checked(self, ct, d, route):
        m = self.shape_mismatch(ct, d, route == 'backend constructors')
        if m is not None:
            raise Violation('C27.1', 'asked (%s) for %r, got the ctype %r: expected %s -- one ctype object stands '
                            'for two different C types' % (route, render(d), ct.cname, m))
        return ct

    def build_string(self, entry, d):
        kind, ffi = entry
        spell = self.salt if self.salt % 3 == 0 else None
        s = render(d, '', spell)
        if spell is not None:
            self.out.probe('type_string_with_alternative_spellings')
        return self.checked(ffi.typeof(s), d, 'typeof(string %r) through %s' % (s, kind))

    def build_direct(self, entry, d):
        """through the backend constructors, component by component (no per-FFI cache involved)"""
        be = self.be
        k = d[0]
        if k == 'prim':
            return be.new_primitive_type(d[1])
        if k == 'void':
            return be.new_void_type()
        if k in ('agg', 'tdef'):
            return entry[1].typeof(d[1])
        if k == 'ptr':
            return be.new_pointer_type(self.build_direct(entry, d[1]))
        if k == 'arr':
            item = self.build_direct(entry, d[1])
            return be.new_array_type(be.new_pointer_type(item), d[2])
        if k == 'func':
            args = []
            for j, a in enumerate(d[2]):
                if a[0] == 'ptr' and a[1][0] not in ('void', 'func') and (self.salt + j) % 3 == 0:
                    # the same C parameter type spelled as an array: 'T x[n]' decays to 'T *'
                    item = self.build_direct(entry, a[1])
                    args.append(be.new_array_type(be.new_pointer_type(item), 1 + (self.salt + j) % 5))
                    self.out.probe('function_argument_given_as_array_type')
                else:
                    args.append(self.build_direct(entry, a))
            abi = self.abi_of(d)
            if abi != be.FFI_DEFAULT_ABI:
                self.out.probe('function_type_with_non_default_ABI')
            return be.new_function_type(tuple(args), self.build_direct(entry, d[1]), d[3], abi)
        raise HarnessError('bad desc')

    def build(self, how, k, d):
        self.salt = k
        if uses_const(d):
            # an array length given by the name of an integer constant: resolved by the FFI object that
            # declares the constant -- each of the two constant-only modules gives its own C type
            c = [e for e in self.ffis if e[0].startswith('cmod')]
            if not c:
                return None
            entry = c[k % len(c)]
            rd = resolve_consts(d, CONSTS[entry[0]])
            st = render(d)
            ct = self.checked(entry[1].typeof(st), rd, 'typeof(string %r) through %s' % (st, entry[0]))
            self.out.probe('array_length_named_by_a_constant_of_the_module')
            return ct, entry[0], rd       # later rebuilds of this type use the resolved lengths
        need = needs_cdef(d)
        entry = self.pick_ffi(k, need)
        if entry is None:
            return None
        if how == 'string':
            ct = self.build_string(entry, d)
        elif how == 'direct':
            ct = self.checked(self.build_direct(entry, d), d, 'backend constructors')
        else:   # through a cdata
            kind, ffi = entry
            t = self.build_string(entry, d)
            if d[0] == 'ptr' and d[1][0] not in ('func',):
                ct = self.checked(ffi.typeof(ffi.cast(t, 0)), d, 'typeof(cast)')
            elif d[0] == 'arr' and d[2] is not None and total_items(d) <= 20000:
                ct = self.checked(ffi.typeof(ffi.new(t)), d, 'typeof(new)')
            else:
                ct = t
            del t
        if entry[0].startswith('module') or entry[0] == 'cffi' or entry[0].startswith('cmod'):
            self.out.probe('built_through_C_parser')
        else:
            self.out.probe('built_through_python_parser')
        return ct, entry[0]

    def apply(self, op, gremlin=False):
        name = op[0]
        if name == 'build':
            r = self.build(op[1], op[2], op[3])
            if r is not None:
                self.slots.append((r[0], [r[2] if len(r) > 2 else op[3], r[1]]))
        elif name == 'drop':
            if self.slots:
                del self.slots[op[1] % len(self.slots)]
        elif name == 'dropall':
            del self.slots[:]
        elif name == 'cycle':
            if self.slots:
                ct, tag = self.slots.pop(op[1] % len(self.slots))
                c = [ct]
                c.append(c)
                self.cycled.append(tag)
                del ct, c
                self.out.probe('ctype_parked_in_garbage_cycle')
        elif name == 'dropffi':
            if self.ffis:
                i = op[1] % len(self.ffis)
                kind = self.ffis[i][0]
                if not kind.startswith('module') and not kind.startswith('cmod'):
                    self.ffis[i][1] = None
                    self.ffis[i][1] = self.make_ffi(kind)
                    self.out.probe('ffi_dropped_and_recreated')
        elif name == 'churn':
            be = self.be
            junk = []
            base = be.new_primitive_type(PRIMS[op[1] % len(PRIMS)])
            for i in range(5 + op[1] % 40):
                base = be.new_pointer_type(base)
                junk.append(be.new_array_type(be.new_pointer_type(base), 1 + i % 7))
            del junk, base
        elif name == 'collect':
            if not gremlin:
                self.do_collect()
        elif name == 'gremlin':
            if not gremlin:
                self.op_gremlin(op[1])
        else:
            raise HarnessError('unknown op %r' % (op,))

    def op_gremlin(self, n):
        run = self

        class Gremlin(object):
            def __del__(self):
                # runs during the collection: weak references to the ctypes being collected are
                # already dead, their deallocation has not happened yet.  Rebuild equivalent types.
                try:
                    for tag in run.cycled[-n:]:
                        d, kind = tag
                        for entry in run.ffis:
                            if entry[0] == kind or (not needs_cdef(d)) or (entry[0] != 'cffi' and not uses_agg(d)):
                                try:
                                    ct = run.build_direct(entry, d)
                                except Exception:
                                    ct = run.build_string(entry, d)
                                run.slots.append((ct, [d, entry[0]]))
                                run.rebuilt.append([d, entry[0]])
                                run.out.fault('gremlin_rebuilt_type_during_collection')
                                break
                except Violation as v:
                    run.gv = v

        g = Gremlin()
        c = [g]
        c.append(c)
        del g, c

    def do_collect(self):
        gc.collect()
        del self.cycled[:]
        # every type a gremlin rebuilt during the collection must still be THE canonical one:
        # build it once more and let the invariant compare
        todo, self.rebuilt = self.rebuilt, []
        for d, kind in todo:
            for entry in self.ffis:
                if entry[0] == kind or (not needs_cdef(d)) or (entry[0] != 'cffi' and not uses_agg(d)):
                    try:
                        ct = self.build_direct(entry, d)
                    except Exception:
                        ct = self.build_string(entry, d)
                    self.slots.append((ct, [d, entry[0]]))
                    self.out.probe('rebuilt_type_verified_after_collection')
                    break

    def run(self):
        every = self.case['regime'] == 'every'
        for self.opi, op in enumerate(self.case['ops']):
            self.apply(op)
            if every and op[0] != 'collect':
                self.do_collect()
            if self.gv is not None:
                raise self.gv
            n = self.check_canonical('after op %d %r' % (self.opi, op[:3]))
            self.trace.append((op[0], len(self.slots), n))
        self.opi = len(self.case['ops'])
        self.do_collect()
        self.check_canonical('after the final collect')


class C27(core.Check):
    pid = 'C27'
    level = 'exploration'
    engine = 'H'
    quick_runs = 20000
    thorough_budget_s = 900
    chunk = 125
    history_dependent = True     # unique_cache and the modules' type caches outlive a run
    crash_clause = 'C27.1'
    env = {'MALLOC_PERTURB_': '221', 'PYTHONMALLOC': 'malloc'}
    rule = ('one run = a seeded history of up to 60 operations (build a derived type from a type string through '
            'an in-line FFI, a C-level FFI() or an out-of-line module; build it component by component through '
            'the backend constructors; via cast/new; drop; drop a whole FFI; park a ctype in a garbage cycle; '
            'churn to force address reuse; collect) with the collector run only as an injected event and '
            'gremlin finalizers that rebuild, during a collection, types equivalent to the ones being '
            'collected; after every op all ctypes reachable from the slots are compared: same structural '
            'description <=> same object. non-trivial = the history contains a drop/cycle/FFI drop followed '
            'by a build; distinct = distinct digest of the (op, slots, distinct types) trace')
    components = {
        'real': ['_cffi_backend unique_cache / get_unique_type / remove_dead_unique_reference (private sim build)',
                 'cffi.model.global_cache + WeakValueDictionary', 'C-level type parser (FFI().typeof) and the Python parser',
                 'out-of-line modules generated by the cffi under test'],
        'simulated': ['instants of garbage collection and reference drops', 'finalizer re-entrancy (gremlins)'],
        'stub': [],
    }
    assumptions = ['aggregates and enums are compared by identity (the property excludes them)',
                   'ctypes hidden in per-FFI caches are only observed when a later build returns them']

    def prepare(self, tier):
        self.bdir = build.backend(True)
        self.m0 = build.helper_module('_verif_c27a', CDEF, None, self.bdir, source_none=True)
        self.m1 = build.helper_module('_verif_c27b', CDEF, None, self.bdir, source_none=True)
        self.m2 = build.helper_module('_verif_c27c', CDEF_CONST[0], None, self.bdir, source_none=True)
        self.m3 = build.helper_module('_verif_c27d', CDEF_CONST[1], None, self.bdir, source_none=True)
        build.activate(self.bdir)
        sys.path.insert(0, self.m0)
        sys.path.insert(0, self.m1)
        sys.path.insert(0, self.m2)
        sys.path.insert(0, self.m3)
        import cffi, _cffi_backend, _verif_c27a, _verif_c27b
        self.cffi = cffi
        self.backend = _cffi_backend
        self.modules = [_verif_c27a, _verif_c27b]
        import _verif_c27c, _verif_c27d
        self.cmods = [_verif_c27c, _verif_c27d]
        # ABI numbers for which this libffi prepares a cif (platform dependent; probed once)
        self.abis = []
        bint = _cffi_backend.new_primitive_type('int')
        for abi in range(0, 8):
            try:
                _cffi_backend.new_function_type((bint,), bint, False, abi)
            except Exception:
                continue
            self.abis.append(abi)

    def generate(self, rng, idx, tier):
        nffi = rng.randint(1, 4)
        ffis = [rng.weighted([('inline', 4), ('cffi', 2), ('module0', 1), ('module1', 1), ('cmod0', 1), ('cmod1', 1)])
                for _ in range(nffi)]
        pool = []
        for _ in range(rng.randint(2, 6)):
            pool.append(fix_open_arrays(gen_desc(rng, rng.randint(1, 4), rng.chance(0.5))))
        r2 = rng.fork('kinds')
        if r2.chance(0.15):
            # types of different kinds whose cache keys are made of the same words: an array T[n] (key: pointer
            # type, n) next to a function without arguments returning T * (key: result type, small flag words)
            t = ['prim', r2.choice(PRIMS)]
            n = r2.choice([2, 3, 4, 5, 8, 10, 512, 768, 1024, 1280, 1025, 2048, 2560])
            pool.append(['arr', t, n])
            pool.append(['func', ['ptr', t], [], False])
            pool.append(['ptr', ['arr', t, n]])
        if r2.chance(0.15):
            t = ['prim', r2.choice(PRIMS)]
            name = r2.choice(['BUFLEN', 'BUFLEN', 'NN', 'BIG'])
            pool.append(['arr', t, name])
            pool.append(['ptr', ['arr', t, name]])
            pool.append(['arr', ['ptr', t], name])
            pool.append(['arr', t, CONSTS['cmod0'][name]])     # the same lengths spelled as literals
            pool.append(['arr', t, CONSTS['cmod1'][name]])
            for kind in ('cmod0', 'cmod1'):
                if kind not in ffis:
                    ffis.append(kind)
        ops = []
        for _ in range(rng.randint(5, 60)):
            name = rng.weighted([('build', 30), ('drop', 12), ('cycle', 6), ('dropffi', 3), ('churn', 4),
                                 ('collect', 6), ('gremlin', 4), ('dropall', 1)])
            if name == 'build':
                d = rng.choice(pool) if rng.chance(0.8) else fix_open_arrays(
                    gen_desc(rng, rng.randint(1, 4), rng.chance(0.5)))
                # sometimes a sub-type of a pool entry, so that components are held on their own
                if rng.chance(0.25):
                    while d[0] in ('ptr', 'arr') and rng.chance(0.6):
                        d = d[1]
                    if d[0] == 'void':
                        d = ['ptr', ['void']]
                ops.append(['build', rng.weighted([('string', 5), ('direct', 4), ('cdata', 2)]), rng.below(1000), d])
            elif name in ('drop', 'cycle', 'dropffi', 'churn'):
                ops.append([name, rng.below(1000)])
            elif name == 'gremlin':
                ops.append(['gremlin', rng.randint(1, 3)])
            else:
                ops.append([name])
        regime = rng.choice(['every', 'sparse'])
        return dict(ffis=ffis, ops=ops, regime=regime, variant=regime)

    def execute(self, case):
        out = Outcome()
        run = Run(self, case, out)
        with hist.NoGC(), hist.Unraisable() as unr:
            try:
                run.run()
            except Violation as v:
                out.violate(v.clause, v.detail, run.opi)
            except (HarnessError, MemoryError):
                raise
            except Exception as e:
                out.violate('C27.1', hist.unexpected(e, (case['ops'][run.opi:run.opi + 1] or [None])[0]), run.opi)
            finally:
                del run.slots[:]
                del run.ffis[:]
                gc.collect()
        out.steps = len(case['ops'])
        out.digest = digest_of([case['ffis'], case['regime'], run.trace])
        names = [op[0] for op in case['ops']]
        nt = False
        seen_drop = False
        for n in names:
            if n in ('drop', 'cycle', 'dropffi', 'dropall'):
                seen_drop = True
            elif n == 'build' and seen_drop:
                nt = True
        out.nontrivial = nt
        if case['regime'] == 'every':
            out.fault('gc_after_every_op', len(case['ops']))
        else:
            out.fault('gc_sparse_collect_events', names.count('collect'))
        if unr.count:
            out.unspec('unraisable_during_run', unr.count)
        out.sample = dict(ffis=case['ffis'], regime=case['regime'],
                          ops=[[o[0], o[1], render(o[3])] if o[0] == 'build' else o for o in case['ops'][:20]])
        return out

    def shrink_candidates(self, case):
        for c in hist.shrink_ops(case):
            yield c
        if len(case['ffis']) > 1:
            for i in range(len(case['ffis'])):
                yield dict(case, ffis=case['ffis'][:i] + case['ffis'][i + 1:])
        if case['regime'] == 'every':
            yield dict(case, regime='sparse')

    def signature(self, case, out):
        return '%s' % (out.clause,)


CHECK = C27()
