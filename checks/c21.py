"""C21 -- ownership, destructors and handles over any history (engine H)."""
import os, sys, gc, weakref, json
from sim import core, build, hist
from sim.core import Outcome, PRNG, HarnessError, digest_of

CDEF = "struct foo { long a; long b; char c[8]; };"


class Obj(object):
    """payload for handles (weak-referenceable)"""
    __slots__ = ('n', '__weakref__')

    def __init__(self, n):
        self.n = n


class ObjDelGC(object):
    """payload whose finalizer runs a garbage collection: a collection in the middle of the
    deallocation of the handle that owned it"""
    fired = 0

    def __del__(self):
        ObjDelGC.fired += 1
        gc.collect()


class BA(bytearray):
    pass


class Exporter(object):
    """PEP 688 exporter with counters; may refuse or export read-only"""

    def __init__(self, size, mode):
        self.data = bytearray(size)
        self.mode = mode
        self.exports = 0
        self.releases = 0
        self.views = []      # keeps the exported memoryviews reachable from the exporter (see Run.op_frombuf)

    def __buffer__(self, flags):
        if self.mode == 'refuse':
            raise BufferError('exporter refuses')
        if self.mode == 'ro' and (flags & 1):      # PyBUF_WRITABLE on a read-only exporter
            raise BufferError('exporter is read-only')
        mv = memoryview(self.data)
        if self.mode == 'ro':
            mv = mv.toreadonly()
        self.exports += 1
        self.views.append(mv)
        return mv

    def __release_buffer__(self, view):
        self.releases += 1
        for i, v in enumerate(self.views):
            if v is view:
                del self.views[i]
                break
        view.release()


class Violation(Exception):
    def __init__(self, clause, detail):
        self.clause = clause
        self.detail = detail


class Run(object):
    def __init__(self, check, case, out):
        self.check = check
        self.case = case
        self.out = out
        self.ffi = check.ffis[case['flavour']]
        self.g = hist.Graph()
        self.slots = []          # list of dict(node=, obj=, kind=)
        self.info = {}           # node -> dict (model record)
        self.gremlins = []       # pending gremlin scripts (fire at next collect)
        self.serial = 0
        self.opi = 0
        self.trace = []
        self.in_gremlin = False
        self.keepalive = []
        self.pinned = set()      # model nodes the harness itself keeps alive for the whole run

    # ---------------- model records ----------------
    def rec(self, node, **kw):
        d = dict(kind='?', wr=None, calls=0, expect=0, armed=False, block=None, released=False, view=None)
        d.update(kw)
        self.info[node] = d
        return d

    def add_slot(self, node, obj, kind):
        self.slots.append(dict(node=node, obj=obj, kind=kind))

    def roots(self):
        return [s['node'] for s in self.slots] + sorted(self.pinned)

    def pick(self, k, pred):
        c = [i for i, s in enumerate(self.slots) if pred(s)]
        if not c:
            return None
        return c[k % len(c)]

    # ---------------- death processing ----------------
    def settle(self, collect=False):
        """reference-count deaths: unreachable acyclic objects die now"""
        self._died(self.g.settle(self.roots(), False))

    def _died(self, dying):
        for n in dying:
            r = self.info.get(n)
            if r is not None and r['kind'] in ('gc', 'alloc') and r['armed']:
                r['expect'] += 1
                r['armed'] = False

    def do_collect(self):
        """the injected GC event.  Everything that was garbage *before* the collection
        started dies in it; what a gremlin finalizer drops *during* the collection is
        ordinary reference counting (cyclic garbage created then waits for the next one)."""
        before = self.g.pending(self.roots())
        if before:
            self.out.probe('collect_with_pending_cyclic_garbage')
        gc.collect()
        self._died(self.g.kill(before))
        self.settle()

    def fire(self, node):
        """explicit release of a gc wrapper / allocator object"""
        r = self.info[node]
        if r['armed']:
            r['expect'] += 1
            r['armed'] = False
        r['released'] = True
        # the wrapper no longer references its original object nor its destructor
        self.g.edges[node] = set()
        self.g.cyclic.discard(node)

    # ---------------- checks after every op ----------------
    def check_all(self, where):
        for n, r in self.info.items():
            k = r['kind']
            if k in ('gc', 'alloc'):
                if r['calls'] != r['expect']:
                    what = 'ffi.gc() destructor' if k == 'gc' else "new_allocator() 'free'"
                    clause = 'C21.1' if k == 'gc' else 'C21.3'
                    if r.get('disarmed') and r['calls'] > r['expect']:
                        clause = 'C21.2'
                    state = 'dead' if not self.g.alive(n) else ('released' if r['released'] else 'alive')
                    raise Violation(clause, '%s of object #%d was called %d time(s), expected %d (%s; %s)'
                                    % (what, n, r['calls'], r['expect'], state, where))
                if r.get('badarg'):
                    raise Violation('C21.1' if k == 'gc' else 'C21.3',
                                    'destructor/free of object #%d received the wrong object (%s)' % (n, where))
            wr = r['wr']
            if wr is not None:
                actual = wr() is not None
                model = self.g.alive(n)
                if model and not actual:
                    clause = {'src': 'C21.5', 'struct': 'C21.6', 'payload': 'C21.7', 'new': 'C21.6'}.get(k, 'C21.1')
                    raise Violation(clause, 'object #%d (%s) was freed although it must still be alive (%s)'
                                    % (n, k, where))
                if actual and not model:
                    self.out.unspec('object_alive_longer_than_model')
            if k == 'src':
                self.check_source(n, r, where)

    def check_source(self, n, r, where):
        src = r['wr']() if r['wr'] is not None else None
        if src is None:
            return
        exporting = [m for m in r['exports'] if self.g.alive(m) and not self.info[m]['released']]
        if isinstance(src, Exporter):
            if src.exports - src.releases != len(exporting):
                raise Violation('C21.5', 'exporter #%d: exports - releases = %d but %d unreleased from_buffer '
                                'cdata are alive (%s)' % (n, src.exports - src.releases, len(exporting), where))

    # ---------------- op implementations ----------------
    def new_block(self, tkind):
        self.serial += 1
        return dict(id=self.serial, tkind=tkind, vals=None, valid=True)

    TYPES = {'struct': 'struct foo *', 'arr': 'long[6]', 'prim': 'long *'}

    def init_for(self, tkind, initkind):
        if initkind == 'none':
            return None
        if initkind == 'bad':
            return {'struct': {'a': 'notanint'}, 'arr': [1, 'x'], 'prim': 'zz'}[tkind]
        self.serial += 1
        v = self.serial * 1000003
        return {'struct': {'a': v, 'b': v + 1}, 'arr': [v, v + 1, v + 2], 'prim': v}[tkind]

    def vals_for(self, tkind, init):
        if init is None:
            return {'struct': [0, 0], 'arr': [0, 0, 0], 'prim': [0]}[tkind]
        if tkind == 'struct':
            return [init['a'], init['b']]
        if tkind == 'arr':
            return list(init)
        return [init]

    def read_vals(self, obj, tkind, is_struct_obj=False):
        if tkind == 'struct':
            return [obj.a, obj.b]
        if tkind == 'arr':
            return [obj[0], obj[1], obj[2]]
        return [obj[0]]

    def write_vals(self, obj, tkind, vals):
        if tkind == 'struct':
            obj.a, obj.b = vals
        elif tkind == 'arr':
            obj[0], obj[1], obj[2] = vals
        else:
            obj[0] = vals[0]

    def op_new(self, tkind, initkind):
        init = self.init_for(tkind, initkind)
        try:
            p = self.ffi.new(self.TYPES[tkind], init)
        except (TypeError, OverflowError, ValueError):
            if initkind != 'bad':
                raise Violation('C21.6', 'ffi.new(%r) with a valid initializer raised' % self.TYPES[tkind])
            self.out.fault('initializer_conversion_fails')
            return
        if initkind == 'bad':
            self.out.unspec('bad_initializer_accepted')
        blk = self.new_block(tkind)
        blk['vals'] = self.vals_for(tkind, init)
        if tkind == 'struct':
            s = self.g.add()
            self.rec(s, kind='struct', block=blk, view='struct')       # weakref taken lazily at deref
            n = self.g.add(edges=[s])
            self.rec(n, kind='new', block=blk, wr=weakref.ref(p), structnode=s, view='struct')
        else:
            n = self.g.add()
            self.rec(n, kind='new', block=blk, wr=weakref.ref(p), view=tkind)
        blk['owner'] = n
        self.add_slot(n, p, 'new')

    def op_anew(self, akind, tkind, initkind, clear):
        ffi = self.ffi
        run = self
        st = dict(node=None, base_id=None, alloc_calls=0)
        self.serial += 1
        aid = self.serial

        def alloc(size):
            st['alloc_calls'] += 1
            if akind == 'alloc_raises':
                raise MemoryError('injected')
            if akind == 'alloc_nocdata':
                return 12345
            if akind == 'alloc_nonptr':
                return ffi.cast('long', 7)
            if akind == 'alloc_null':
                return ffi.cast('char *', 0)
            base = ffi.new('char[]', size + 8)
            ffi.memmove(base, b'\xaa' * (size + 8), size + 8)    # dirty: should_clear_after_alloc must zero it
            st['base_id'] = id(base)     # valid while the allocation object keeps 'base' alive
            return base

        def free(obj):
            r = run.info.get(st['node']) if st['node'] is not None else st
            r['calls'] = r.get('calls', 0) + 1
            if id(obj) != st.get('base_id'):
                r['badarg'] = True
            if akind == 'free_raises':
                raise RuntimeError('injected free failure')

        use_free = None if akind == 'free_none' else free
        allocator = ffi.new_allocator(alloc, use_free, clear)
        init = self.init_for(tkind, initkind)
        fails = akind in ('alloc_raises', 'alloc_nocdata', 'alloc_nonptr', 'alloc_null')
        try:
            p = allocator(self.TYPES[tkind], init)
        except (MemoryError, TypeError, OverflowError, ValueError) as e:
            if fails:
                self.out.fault('allocator_' + akind)
                if st.get('calls', 0):
                    raise Violation('C21.3', "'free' was called although 'alloc' failed (%s)" % akind)
                return
            if initkind == 'bad':
                # allocation succeeded, initializer failed: free must run exactly once, now
                self.out.fault('initializer_fails_after_alloc')
                self.out.probe('allocator_plus_failed_initializer')
                want = 0 if use_free is None else 1
                if st.get('calls', 0) != want:
                    raise Violation('C21.3', "allocation succeeded but the initializer failed: 'free' was called "
                                    "%d time(s), expected %d" % (st.get('calls', 0), want))
                if st.get('badarg'):
                    raise Violation('C21.3', "'free' received an object that is not what 'alloc' returned")
                return
            raise Violation('C21.3', 'allocator(%r) raised %r unexpectedly' % (self.TYPES[tkind], e))
        if fails:
            raise Violation('C21.3', 'allocator with a failing alloc (%s) returned an object' % akind)
        if initkind == 'bad':
            self.out.unspec('bad_initializer_accepted')
        if akind == 'free_raises':
            self.out.fault('free_raises_armed')
        blk = self.new_block(tkind)
        blk['vals'] = self.vals_for(tkind, init) if clear or init is not None else None
        if tkind == 'struct' and blk['vals'] is not None and init is not None and not clear:
            pass
        armed = use_free is not None
        if tkind == 'struct':
            # p (plain owning pointer) -> struct object, which is the gcp wrapper around base
            s = self.g.add()
            self.rec(s, kind='alloc', block=blk, armed=armed, calls=st.get('calls', 0), structlike=True, view='struct')
            n = self.g.add(edges=[s])
            self.rec(n, kind='new', block=blk, wr=weakref.ref(p), structnode=s, allocnode=s, view='struct')
            st['node'] = s
        else:
            n = self.g.add()
            self.rec(n, kind='alloc', block=blk, armed=armed, wr=weakref.ref(p), calls=st.get('calls', 0), view=tkind)
            st['node'] = n
        blk['owner'] = n
        self.add_slot(n, p, 'anew')

    def cdata_slot(self, s):
        return s['kind'] in ('new', 'anew', 'gc', 'frombuf', 'handle', 'struct', 'alias')

    def op_gc(self, k, dkind):
        i = self.pick(k, lambda s: s['kind'] in ('new', 'anew', 'gc', 'alias', 'struct'))
        if i is None:
            return
        x = self.slots[i]['obj']
        xnode = self.slots[i]['node']
        run = self
        st = dict(node=None)
        xid = id(x)        # valid while the wrapper keeps x alive (weak references to x are
        box = [None]       # already cleared when a finalizer runs during collection)

        cyc = dkind in ('cyc', 'rerelease')

        def d(obj, box=box if cyc else None):
            r = run.info[st['node']]
            r['calls'] += 1
            if id(obj) != xid:
                r['badarg'] = True
            if dkind == 'raises':
                raise RuntimeError('injected destructor failure')
            if dkind == 'rerelease' and box[0] is not None and r['calls'] == 1:
                # the destructor releases its own wrapper again while it is running (an idempotent
                # close() reached from the destructor): must be a no-op
                run.out.fault('release_of_the_wrapper_from_inside_its_destructor')
                run.ffi.release(box[0])
                with box[0]:
                    pass

        w = self.ffi.gc(x, d, size=(xid % 3) * 4096) if (xid // 16) % 2 else self.ffi.gc(x, d)
        n = self.g.add(edges=[xnode], cyclic=cyc)
        src = self.info[xnode]
        self.rec(n, kind='gc', armed=True, wr=weakref.ref(w), block=src.get('block'), orig=xnode,
                 view=src.get('view'))
        st['node'] = n
        if cyc:
            box[0] = w
            self.out.probe('destructor_closure_cycle')
        if dkind == 'raises':
            self.out.fault('destructor_raises_armed')
        if self.slots[i]['kind'] == 'gc':
            self.out.probe('gc_chain')
        self.add_slot(n, w, 'gc')
        del x, w

    def op_gcnone(self, k):
        i = self.pick(k, self.cdata_slot)
        if i is None:
            return
        s = self.slots[i]
        isgc = self.info[s['node']]['kind'] in ('gc', 'alloc')
        try:
            self.ffi.gc(s['obj'], None)
        except TypeError:
            if isgc:
                raise Violation('C21.2', 'ffi.gc(w, None) raised TypeError on a gc wrapper')
            return
        if not isgc:
            self.out.unspec('gc_none_accepted_on_non_wrapper')
            return
        r = self.info[s['node']]
        if r['armed']:
            r['armed'] = False
            r['disarmed'] = True
        self.g.cyclic.discard(s['node'])       # the destructor (and its closure) is gone
        if r['released']:
            self.out.probe('gc_none_after_release')
        self.out.probe('gc_none')

    def op_release(self, k, how):
        i = self.pick(k, self.cdata_slot)
        if i is None:
            return
        s = self.slots[i]
        node = s['node']
        r = self.info[node]
        releasable = s['kind'] in ('new', 'anew', 'gc', 'frombuf') or r['kind'] == 'alloc'
        before = [(n, x['calls']) for n, x in self.info.items()]
        try:
            if how == 'with':
                with s['obj']:
                    pass
            elif how == 'with_raise':
                try:
                    with s['obj']:
                        raise KeyError('inside the with block')
                except KeyError:
                    pass
            else:
                self.ffi.release(s['obj'])
        except ValueError:
            if releasable:
                raise Violation('C21.4', 'release() of a %s object raised ValueError' % s['kind'])
            for n, c in before:
                if self.info[n]['calls'] != c:
                    raise Violation('C21.4', 'a rejected release() still ran a destructor')
            return
        if not releasable:
            self.out.unspec('release_accepted_on_' + s['kind'])
            return
        if r['released']:
            self.out.probe('release_twice')
        if s['kind'] == 'gc':
            self.fire(node)
        elif s['kind'] == 'struct':      # the owning struct object of an allocator: itself a gc object
            self.fire(node)
            if r['block'] is not None:
                r['block']['valid'] = False
            self.out.probe('release_through_allocator_struct_object')
        elif s['kind'] == 'anew':
            an = r.get('allocnode', node)
            self.fire(an)
            if an != node:
                r['released'] = True
            if r['block'] is not None:
                r['block']['valid'] = False
        elif s['kind'] == 'frombuf':
            r['released'] = True
            self.g.edges[node] = set()
        else:
            r['released'] = True    # plain ffi.new(): no effect on CPython

    def op_frombuf(self, srckind, tkind, writable, keepsrc):
        self.serial += 1
        size = 24
        if srckind == 'ba':
            src = BA(size)
        elif srckind in ('pep_ok', 'pep_refuse', 'pep_ro'):
            src = Exporter(size, {'pep_ok': 'ok', 'pep_refuse': 'refuse', 'pep_ro': 'ro'}[srckind])
        elif srckind == 'bytes':
            src = b'x' * size
        else:
            src = memoryview(bytearray(size * 2))[::2]
        T = {'chararr': 'char[]', 'longarr': 'long[]', 'fixed': 'long[3]', 'toobig': 'long[9]'}[tkind]
        expect_fail = None
        if srckind == 'pep_refuse':
            expect_fail = 'refuse'
        elif srckind == 'mv_noncontig':
            expect_fail = 'noncontig'
        elif writable and srckind in ('bytes', 'pep_ro'):
            expect_fail = 'readonly'
        elif tkind == 'toobig':
            expect_fail = 'toobig'
        try:
            cd = self.ffi.from_buffer(T, src, writable)
        except (BufferError, TypeError, ValueError) as e:
            if expect_fail is None:
                raise Violation('C21.5', 'from_buffer(%r, %s, require_writable=%r) raised %r' % (T, srckind, writable, e))
            self.out.fault('exporter_' + expect_fail)
            if isinstance(src, Exporter) and src.exports != src.releases:
                raise Violation('C21.5', 'from_buffer failed (%s) but left the exporter locked '
                                '(exports %d, releases %d)' % (expect_fail, src.exports, src.releases))
            if srckind == 'ba':
                try:
                    src.append(1)
                except BufferError:
                    raise Violation('C21.5', 'from_buffer failed (%s) but left the bytearray export-locked' % expect_fail)
            return
        if expect_fail is not None:
            if expect_fail in ('refuse', 'noncontig', 'toobig'):
                raise Violation('C21.5', 'from_buffer succeeded although the exporter must fail (%s)' % expect_fail)
            self.out.unspec('from_buffer_readonly_accepted')
        weakable = srckind in ('ba', 'pep_ok', 'pep_ro')
        if isinstance(src, Exporter):
            # CPython 3.12.1 hazard, not cffi's: if the memoryview returned by a Python-level
            # __buffer__ becomes part of the garbage being collected while it is still exported,
            # memoryview's tp_clear fails ("memoryview has 1 exported buffer") and the later
            # __release_buffer__ call crashes the interpreter.  PEP 688 exporters are therefore
            # kept alive by the harness for the whole run (their export/release counters are
            # still checked); source lifetime is checked on the bytearray sources only.
            self.keepalive.append(src)
            keepsrc = True
        sn = self.g.add()
        self.rec(sn, kind='src', wr=weakref.ref(src) if weakable else None, exports=[], srckind=srckind)
        n = self.g.add(edges=[sn])
        self.rec(n, kind='frombuf', wr=weakref.ref(cd), srcnode=sn)
        self.info[sn]['exports'].append(n)
        self.add_slot(n, cd, 'frombuf')
        if isinstance(src, Exporter):
            self.g.cyclic.discard(sn)
            self.pinned.add(sn)
        elif keepsrc:
            self.add_slot(sn, src, 'src')
        else:
            self.out.probe('from_buffer_is_only_owner_of_source')

    def op_frombuf_again(self, k, default_decl):
        """another from_buffer cdata on a source that is already exported (released later in any order)"""
        i = self.pick(k, lambda s: s['kind'] == 'src' and self.info[s['node']]['srckind'] == 'ba')
        if i is None:
            return
        s = self.slots[i]
        sn = s['node']
        if default_decl:
            cd = self.ffi.from_buffer(s['obj'])            # cdecl omitted: 'char[]'
            if len(cd) != len(s['obj']):
                raise Violation('C21.5', 'from_buffer(obj) has %d items for a %d-byte object' % (len(cd), len(s['obj'])))
        else:
            cd = self.ffi.from_buffer('char[]', s['obj'])
        n = self.g.add(edges=[sn])
        self.rec(n, kind='frombuf', wr=weakref.ref(cd), srcnode=sn)
        self.info[sn]['exports'].append(n)
        self.add_slot(n, cd, 'frombuf')
        self.out.probe('several_from_buffer_cdata_on_one_source')

    def op_resize(self, k):
        i = self.pick(k, lambda s: s['kind'] == 'src' and self.info[s['node']]['srckind'] == 'ba')
        if i is None:
            return
        s = self.slots[i]
        r = self.info[s['node']]
        exporting = [m for m in r['exports'] if self.g.alive(m) and not self.info[m]['released']]
        try:
            s['obj'].append(7)
            s['obj'].pop()
            ok = True
        except BufferError:
            ok = False
        if exporting and ok:
            raise Violation('C21.5', 'bytearray #%d could be resized while %d unreleased from_buffer cdata '
                            'are alive' % (s['node'], len(exporting)))
        if not exporting and not ok:
            raise Violation('C21.5', 'bytearray #%d is still export-locked although every from_buffer cdata on it '
                            'was released or collected' % s['node'])
        self.out.probe('resize_while_exported' if exporting else 'resize_after_unlock')

    CONST_PAYLOADS = [None, False, True, 0, (), '', b'', Ellipsis, NotImplemented, 1 << 70, 2.5, ('t', 1)]

    def op_handle(self, keepobj, const=0):
        self.serial += 1
        if const:
            # payloads that cannot be weakly referenced, several of them singletons: identity must survive
            o = self.CONST_PAYLOADS[(const - 1) % len(self.CONST_PAYLOADS)]
            h = self.ffi.new_handle(o)
            hn = self.g.add()
            self.rec(hn, kind='handle', wr=weakref.ref(h), payload=None, const=o)
            self.add_slot(hn, h, 'handle')
            self.out.probe('handle_to_builtin_constant')
            return
        o = Obj(self.serial)
        h = self.ffi.new_handle(o)
        on = self.g.add()
        self.rec(on, kind='payload', wr=weakref.ref(o))
        hn = self.g.add(edges=[on])
        self.rec(hn, kind='handle', wr=weakref.ref(h), payload=on)
        self.add_slot(hn, h, 'handle')
        if keepobj:
            self.add_slot(on, o, 'payload')
        else:
            self.out.probe('handle_is_only_owner_of_object')

    def op_handle_delgc(self, viagc):
        """a handle (or an ffi.gc wrapper) that is the only owner of an object whose __del__ collects:
        everything that was cyclic garbage before dies in the middle of that deallocation"""
        self.settle()
        before = self.g.pending(self.roots())
        f0 = ObjDelGC.fired
        o = ObjDelGC()
        if viagc:
            # the object is owned by the destructor of an ffi.gc() wrapper (a bound method)
            p = self.ffi.new('char[]', 8)
            h = self.ffi.gc(p, lambda _p, o=o: None)
            del p
        else:
            h = self.ffi.new_handle(o)
            if self.ffi.from_handle(h) is not o:
                raise Violation('C21.7', 'from_handle() did not return the object given to new_handle()')
        del o
        if ObjDelGC.fired != f0:
            raise Violation('C21.7', 'an object owned by a live %s was released' % ('ffi.gc wrapper' if viagc else 'handle'))
        del h
        if ObjDelGC.fired != f0 + 1:
            raise Violation('C21.7' if not viagc else 'C21.1',
                            'dropping a %s released the object it owned %d times'
                            % ('ffi.gc wrapper' if viagc else 'handle', ObjDelGC.fired - f0))
        self._died(self.g.kill(before))
        self.settle()
        self.out.fault('collection_during_a_%s_deallocation' % ('gc_wrapper' if viagc else 'handle'))
        if before:
            self.out.probe('collect_with_pending_cyclic_garbage')

    def op_handle_cycle(self):
        """object that references its own handle: a cycle through the handle"""
        self.serial += 1
        o = Obj(self.serial)
        h = self.ffi.new_handle(o)
        holder = [h]
        o.n = holder            # o -> list -> h -> o
        on = self.g.add()
        hn = self.g.add(edges=[on], cyclic=True)
        self.g.edges[on].add(hn)
        self.g.cyclic.add(on)
        self.rec(on, kind='payload', wr=weakref.ref(o))
        self.rec(hn, kind='handle', wr=weakref.ref(h), payload=on)
        self.add_slot(hn, h, 'handle')
        self.out.probe('handle_in_cycle_with_own_object')

    def op_fromh(self, k, via):
        i = self.pick(k, lambda s: s['kind'] == 'handle')
        if i is None:
            return
        s = self.slots[i]
        r = self.info[s['node']]
        h = s['obj']
        arg = h if via == 'direct' else self.ffi.cast('char *' if via == 'castchar' else 'void *', h)
        try:
            o = self.ffi.from_handle(arg)
        except Exception as e:
            raise Violation('C21.7', 'from_handle() (%s) on a live handle raised %s: %s' % (via, type(e).__name__, e))
        want = r['const'] if r['payload'] is None else self.info[r['payload']]['wr']()
        if o is not want:
            raise Violation('C21.7', 'from_handle() (%s) returned %r, not the object given to new_handle()' % (via, o))
        del o, want
        # distinct addresses of all live handles
        seen = {}
        for t in self.slots:
            if t['kind'] == 'handle':
                a = int(self.ffi.cast('uintptr_t', t['obj']))
                if a in seen and seen[a] != t['node']:
                    raise Violation('C21.7', 'two live handles share address %#x' % a)
                seen[a] = t['node']

    def op_deref(self, k):
        i = self.pick(k, lambda s: s['kind'] in ('new', 'anew') and 'structnode' in self.info[s['node']]
                      and not self.info[s['node']]['released'])
        if i is None:
            return
        s = self.slots[i]
        r = self.info[s['node']]
        S = s['obj'][0]
        sn = r['structnode']
        sr = self.info[sn]
        if sr['wr'] is None:
            sr['wr'] = weakref.ref(S)
        elif sr['wr']() is not S:
            raise Violation('C21.6', 'p[0] returned a different owning struct object than before')
        self.add_slot(sn, S, 'struct')
        self.out.probe('deref_owning_struct')

    def op_bufview(self, k):
        """ffi.buffer(x): the view keeps x (a new / gc / allocator object) alive"""
        i = self.pick(k, lambda s: s['kind'] in ('new', 'anew', 'gc') and self.mem_ok(s['node']))
        if i is None:
            return
        s = self.slots[i]
        try:
            b = self.ffi.buffer(s['obj'])
        except TypeError:
            return                  # a struct (not pointer/array) cdata: no buffer
        n = self.g.add(edges=[s['node']])
        self.rec(n, kind='view')
        self.add_slot(n, b, 'view')
        self.out.probe('buffer_view_keeps_object_alive')

    def op_alias(self, k):
        i = self.pick(k, lambda s: s['kind'] in ('new', 'anew') and not self.info[s['node']]['released'])
        if i is None:
            return
        s = self.slots[i]
        a = self.ffi.cast('long *', s['obj'])
        n = self.g.add()
        self.rec(n, kind='alias', block=self.info[s['node']]['block'], view='aliaslong')
        self.add_slot(n, a, 'alias')

    def mem_ok(self, node):
        """may the memory behind this (alive) model object be dereferenced?"""
        r = self.info[node]
        blk = r.get('block')
        if blk is None or not blk['valid']:
            return False
        k = r['kind']
        if k in ('new', 'alloc', 'struct'):
            return not r['released']
        if k == 'gc':
            return (not r['released']) and self.mem_ok(r['orig'])
        if k == 'alias':
            o = blk['owner']
            ro = self.info[o]
            if ro['released']:
                return False
            # inside a finalizer that runs during a collection, objects that are garbage in
            # that same collection may already have been finalized (order is unspecified):
            # only memory owned by objects reachable from the slots may be touched there
            live = self.g._closure(self.roots()) if self.in_gremlin else self.g.edges
            if o in live:
                return True
            sn = ro.get('structnode')
            return sn is not None and sn in live and not self.info[sn]['released']
        return False

    def block_writable(self, s):
        return s['kind'] in ('new', 'anew', 'gc', 'struct', 'alias') and self.mem_ok(s['node'])

    def block_readable(self, s):
        return self.block_writable(s) and self.info[s['node']]['block']['vals'] is not None

    def access(self, s):
        """(object to read through, view kind) for a slot"""
        return s['obj'], self.info[s['node']]['view']

    def op_write(self, k):
        i = self.pick(k, self.block_writable)
        if i is None:
            return
        s = self.slots[i]
        blk = self.info[s['node']]['block']
        obj, tk = self.access(s)
        self.serial += 1
        v = self.serial * 7919
        n = {'struct': 2, 'arr': 3, 'prim': 1}[blk['tkind']]
        vals = [v + j for j in range(n)]
        if tk == 'aliaslong':
            for j in range(n):
                obj[j] = vals[j]
        else:
            self.write_vals(obj, tk, vals)
        blk['vals'] = vals

    def op_read(self, k):
        i = self.pick(k, self.block_readable)
        if i is None:
            return
        self.read_slot(self.slots[i])

    def read_slot(self, s):
        blk = self.info[s['node']]['block']
        obj, tk = self.access(s)
        if tk == 'aliaslong':
            got = [obj[j] for j in range(len(blk['vals']))]
        elif tk is None:
            return
        else:
            got = self.read_vals(obj, tk)
        if got != blk['vals']:
            raise Violation('C21.6', 'memory of block %d read through a live %s object holds %r, expected %r'
                            % (blk['id'], s['kind'], got, blk['vals']))

    def op_drop(self, k):
        if not self.slots:
            return
        i = k % len(self.slots)
        s = self.slots.pop(i)
        if s['kind'] in ('new', 'anew') and 'structnode' in self.info[s['node']]:
            if any(t['node'] == self.info[s['node']]['structnode'] for t in self.slots):
                self.out.probe('struct_outlives_pointer')
        del s

    def op_cycle(self, k):
        if not self.slots:
            return
        i = k % len(self.slots)
        s = self.slots.pop(i)
        c = [s['obj']]
        c.append(c)
        self.g.add(edges=[s['node']], cyclic=True)
        del c, s
        self.out.probe('object_parked_in_garbage_cycle')

    def op_gremlin(self, script):
        run = self

        class Gremlin(object):
            def __del__(self):
                run.in_gremlin = True
                try:
                    for op in script:
                        run.apply(op, gremlin=True)
                        run.settle()
                    run.out.fault('gremlin_finalizer_ran')
                except Violation as v:
                    run.gremlin_violation = v
                finally:
                    run.in_gremlin = False

        g = Gremlin()
        c = [g]
        c.append(c)
        del g, c

    def op_collect(self):
        self.do_collect()

    def op_churn(self, n):
        hist.churn(self.ffi, n)

    # ---------------- dispatcher ----------------
    def apply(self, op, gremlin=False):
        name = op[0]
        if name == 'new':
            self.op_new(op[1], op[2])
        elif name == 'anew':
            self.op_anew(op[1], op[2], op[3], op[4])
        elif name == 'gc':
            self.op_gc(op[1], op[2])
        elif name == 'gcnone':
            self.op_gcnone(op[1])
        elif name == 'release':
            self.op_release(op[1], op[2])
        elif name == 'frombuf':
            self.op_frombuf(op[1], op[2], op[3], op[4])
        elif name == 'resize':
            self.op_resize(op[1])
        elif name == 'frombuf2':
            self.op_frombuf_again(op[1], op[2])
        elif name == 'handle':
            self.op_handle(op[1], op[2] if len(op) > 2 else 0)
        elif name == 'hcycle':
            self.op_handle_cycle()
        elif name == 'hdelgc':
            self.op_handle_delgc(op[1])
        elif name == 'fromh':
            self.op_fromh(op[1], op[2])
        elif name == 'deref':
            self.op_deref(op[1])
        elif name == 'alias':
            self.op_alias(op[1])
        elif name == 'bufview':
            self.op_bufview(op[1])
        elif name == 'write':
            self.op_write(op[1])
        elif name == 'read':
            self.op_read(op[1])
        elif name == 'drop':
            self.op_drop(op[1])
        elif name == 'cycle':
            if not gremlin:
                self.op_cycle(op[1])
        elif name == 'gremlin':
            if not gremlin:
                self.op_gremlin(op[1])
        elif name == 'collect':
            if not gremlin:
                self.op_collect()
        elif name == 'churn':
            self.op_churn(op[1])
        else:
            raise HarnessError('unknown op %r' % (op,))

    def run(self):
        every = self.case['regime'] == 'every'
        self.gremlin_violation = None
        for self.opi, op in enumerate(self.case['ops']):
            self.apply(op)
            if op[0] != 'collect':
                self.settle()
            if every and op[0] not in ('collect',):
                self.do_collect()
            if self.gremlin_violation is not None:
                raise self.gremlin_violation
            self.check_all('after op %d %r' % (self.opi, op))
            self.trace.append((op[0], len(self.slots), len(self.g.edges)))
        # final: drop everything, collect, re-check (every destructor must have run exactly once)
        self.opi = len(self.case['ops'])
        del self.slots[:]
        self.settle()
        self.do_collect()
        self.do_collect()
        self.check_all('after the final drop-all + collect')
        # only now let go of the pinned PEP 688 exporters (nothing exports from them any more)
        del self.keepalive[:]
        self.pinned.clear()
        self.settle()


OPS_W = [('new', 10), ('anew', 8), ('gc', 12), ('gcnone', 4), ('release', 10), ('frombuf', 8),
         ('resize', 5), ('frombuf2', 3), ('handle', 5), ('hcycle', 1), ('hdelgc', 2), ('fromh', 6), ('deref', 6), ('alias', 3), ('bufview', 3),
         ('write', 6), ('read', 8), ('drop', 14), ('cycle', 5), ('collect', 6), ('churn', 3),
         ('gremlin', 2)]


class C21(core.Check):
    pid = 'C21'
    level = 'exploration'
    engine = 'H'
    quick_runs = 40000
    thorough_budget_s = 900
    chunk = 400
    crash_clause = 'C21.6'
    env = {'MALLOC_PERTURB_': '221', 'PYTHONMALLOC': 'malloc'}
    rule = ('one run = a seeded history of up to 40 operations (new / allocator-new / gc / gc(None) / release / '
            'with / from_buffer / resize / new_handle / from_handle / p[0] / cast / write / read / drop / '
            'make-cycle / collect / churn / gremlin) over a slot table, with the garbage collector disabled '
            'and run only as an injected event (after every op, or sparsely), injected failures (raising '
            'destructors and free functions, failing allocators and initializers, refusing / read-only / '
            'non-contiguous exporters) and gremlin finalizers acting during collection; checked after every '
            'op against a reference-graph model; non-trivial = the history contains at least one '
            'asynchronous event (collect with pending cyclic garbage, gremlin, or injected failure) or an '
            'explicit release; distinct = distinct digest of the (op, live slots, live nodes) trace')
    components = {
        'real': ['_cffi_backend (private sim build, glibc malloc with MALLOC_PERTURB_)', 'cffi.FFI() and the '
                 '_cffi_backend.FFI of an out-of-line module generated by the cffi under test', 'CPython gc, weakref, buffer protocol'],
        'simulated': ['instants of garbage collection and of reference drops', 'allocator / destructor / exporter callables (fakes with counters)',
                      'finalizer re-entrancy (gremlin objects in garbage cycles)'],
        'stub': [],
    }
    assumptions = [
        'only live, unreleased objects are dereferenced; from_handle only on live handles',
        'CPython reference counting: an acyclic object dies at the drop event, cyclic garbage at the next collect event',
    ]

    def prepare(self, tier):
        self.bdir = build.backend(True)
        self.hdir = build.helper_module('_verif_c21', CDEF, None, self.bdir, source_none=True)
        build.activate(self.bdir)
        sys.path.insert(0, self.hdir)
        import cffi, _verif_c21
        f = cffi.FFI()
        f.cdef(CDEF)
        self.ffis = {'inline': f, 'compiled': _verif_c21.ffi}

    def generate(self, rng, idx, tier):
        n = rng.randint(4, 40)
        ops = []
        for _ in range(n):
            name = rng.weighted(OPS_W)
            k = rng.below(1000)
            if name == 'new':
                ops.append(['new', rng.choice(['struct', 'struct', 'arr', 'prim']),
                            rng.weighted([('none', 3), ('ok', 5), ('bad', 1)])])
            elif name == 'anew':
                ops.append(['anew', rng.weighted([('ok', 10), ('alloc_raises', 1), ('alloc_nocdata', 1),
                                                  ('alloc_nonptr', 1), ('alloc_null', 1), ('free_raises', 2),
                                                  ('free_none', 1)]),
                            rng.choice(['struct', 'struct', 'arr', 'prim']),
                            rng.weighted([('none', 3), ('ok', 4), ('bad', 2)]), rng.chance(0.7)])
            elif name == 'gc':
                ops.append(['gc', k, rng.weighted([('ok', 6), ('raises', 2), ('cyc', 3), ('rerelease', 2)])])
            elif name in ('gcnone', 'resize', 'deref', 'alias', 'bufview', 'write', 'read', 'drop', 'cycle'):
                ops.append([name, k])
            elif name == 'release':
                ops.append(['release', k, rng.choice(['release', 'with', 'with_raise'])])
            elif name == 'frombuf':
                ops.append(['frombuf', rng.weighted([('ba', 6), ('pep_ok', 4), ('pep_refuse', 1), ('pep_ro', 2),
                                                     ('bytes', 1), ('mv_noncontig', 1)]),
                            rng.weighted([('chararr', 3), ('longarr', 3), ('fixed', 2), ('toobig', 1)]),
                            rng.chance(0.4), rng.chance(0.6)])
            elif name == 'frombuf2':
                ops.append(['frombuf2', k, rng.chance(0.5)])
            elif name == 'handle':
                ops.append(['handle', rng.chance(0.5), rng.randint(1, 12) if rng.chance(0.3) else 0])
            elif name == 'hcycle':
                ops.append(['hcycle'])
            elif name == 'hdelgc':
                ops.append(['hdelgc', rng.below(2)])
            elif name == 'fromh':
                ops.append(['fromh', k, rng.choice(['direct', 'cast', 'castchar'])])
            elif name == 'collect':
                ops.append(['collect'])
            elif name == 'churn':
                ops.append(['churn', k])
            elif name == 'gremlin':
                script = []
                for _ in range(rng.randint(1, 3)):
                    g = rng.choice(['release', 'drop', 'gcnone', 'gc', 'read'])
                    if g == 'release':
                        script.append(['release', rng.below(1000), 'release'])
                    elif g == 'gc':
                        script.append(['gc', rng.below(1000), 'ok'])
                    else:
                        script.append([g, rng.below(1000)])
                ops.append(['gremlin', script])
        return dict(ops=ops, regime=rng.choice(['every', 'sparse']),
                    flavour=rng.choice(['inline', 'compiled']))

    def execute(self, case):
        out = Outcome()
        case['variant'] = '%s/%s' % (case['flavour'], case['regime'])
        run = Run(self, case, out)
        with hist.NoGC(), hist.Unraisable() as unr:
            try:
                run.run()
            except Violation as v:
                out.violate(v.clause, v.detail, run.opi)
            except SystemError as e:
                # CPython found an error indicator left behind by a finalizer / tp_clear (e.g. a memoryview
                # that was cleared while a from_buffer object still exported it)
                chain = '%r <- %r' % (e, e.__cause__ or e.__context__)
                out.violate('C21.5' if 'export' in chain else 'C21.6',
                            'the interpreter reported an internal error during the history: %s' % chain, run.opi)
            except (HarnessError, MemoryError):
                raise
            except Exception as e:
                out.violate('C21.1', hist.unexpected(e, (case['ops'][run.opi:run.opi + 1] or [None])[0]), run.opi)
            finally:
                for attempt in range(3):
                    try:
                        del run.slots[:]
                        run.info.clear()
                        gc.collect()
                        break
                    except SystemError:
                        continue
        nraise = sum(1 for op in case['ops'] if op[0] in ('gc',) and op[2] == 'raises')
        if unr.count:
            out.fault('destructor_or_free_raised_unraisable', unr.count)
        out.steps = len(case['ops'])
        out.digest = digest_of([case['flavour'], case['regime'], run.trace])
        names = set(op[0] for op in case['ops'])
        out.nontrivial = bool(names & set(['cycle', 'gremlin', 'release', 'hcycle'])) or bool(out.faults)
        if 'collect' in names and case['regime'] == 'sparse':
            out.fault('gc_sparse_collect_events', sum(1 for op in case['ops'] if op[0] == 'collect'))
        if case['regime'] == 'every':
            out.fault('gc_after_every_op', len(case['ops']))
        out.sample = dict(flavour=case['flavour'], regime=case['regime'], ops=case['ops'][:25])
        return out

    def shrink_candidates(self, case):
        for c in hist.shrink_ops(case):
            yield c
        if case['regime'] == 'every':
            yield dict(case, regime='sparse')
        if case['flavour'] == 'compiled':
            yield dict(case, flavour='inline')

    def signature(self, case, out):
        return '%s' % (out.clause,)


CHECK = C21()
