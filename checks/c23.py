"""C23 -- generated source is deterministic, idempotent and replaced atomically.
Part A: engine F (SimFS) -- for every sampled case, every I/O step of the real
write path is a crash point (plus torn variants of every write).
Part B: the same cdefs rendered in fresh interpreters under several
PYTHONHASHSEED values and preceding histories; digests must agree."""
import os, sys, json, io, contextlib, subprocess, hashlib
from sim import core, build, simfs, cdefgen
from sim.core import Outcome, PRNG, HarnessError, digest_of
from sim.simfs import SimFS, SimCrash, ROOT

OLD_KINDS = ['absent', 'identical', 'different', 'prefix', 'trailing', 'stale_tmp_same_pid',
             'stale_tmp_other_pid', 'non_utf8', 'empty']
ROUTES_C = ['emit_c', 'recompile_c', 'make_c']
ROUTES_PY = ['emit_py', 'compile_py', 'recompile_py', 'make_py']

RENDER_SCRIPT = os.path.join(core.VERIF, 'sim', 'c23_render.py')


class C23(core.Check):
    pid = 'C23'
    level = 'fault_enumeration'
    engine = 'F'
    quick_runs = 800
    thorough_budget_s = 900
    chunk = 5
    rule = ('Part A: a case = (seeded cdef, module name, prelude or None, route through the public API, '
            'old target state, buffer size, short-write chunking); the regeneration is first run '
            'fault-free on a simulated file system, then re-run once per I/O step with the process '
            'dying at that step (and once more per write step with a torn prefix applied), followed '
            'by a recovery run; exhaustive over crash points per case, cases sampled. '
            'non-trivial = the crash lands on or after the first mutating step of a run that has to '
            'replace a differing target; distinct = distinct (step-kind sequence, crash index, torn?, '
            'old-state kind). Part B: digests of the rendered text across interpreters.')
    components = {
        'real': ['cffi.recompiler (Recompiler, _make_c_or_py_source, make_c_source, make_py_source, recompile)',
                 'FFI.emit_c_code / emit_python_code / compile (source None)', "CPython's io stack (TextIOWrapper/BufferedWriter)"],
        'simulated': ['file system under cffi.recompiler.open / cffi.recompiler.os (open, read, write, close, rename, unlink, makedirs, getpid)',
                      'process crash at an I/O step; torn and short writes'],
        'stub': ['the C compiler is never started (call_c_compiler=False / source None routes)'],
    }
    assumptions = [
        'crash = death of the process with the OS view of files preserved (no power loss; the code issues no fsync)',
        'rename within one directory is atomic (POSIX)',
        'I/O *errors* (ENOSPC, failing rename) are outside the quantifier; probed separately with a weaker oracle',
    ]
    simulated_time_unit = 'I/O steps (open/read/write/close/rename/unlink/makedirs)'

    def prepare(self, tier):
        self.bdir = build.backend(True)
        build.activate(self.bdir)
        import cffi, cffi.recompiler
        self.cffi = cffi
        self.rec = cffi.recompiler
        self.seam = simfs.install(cffi.recompiler)
        self.tier = tier

    # ------------------------------------------------------------------
    def generate(self, rng, idx, tier):
        abi = rng.chance(0.4)
        decl = cdefgen.gen_case(rng.fork('cdef'), abi)
        route = rng.choice(ROUTES_PY if abi else ROUTES_C)
        nchunks = rng.randint(1, 4)
        return dict(decl=decl, route=route, old=rng.choice(OLD_KINDS),
                    bufsize=rng.choice([16, 64, 512, 4096, 8192, 65536]),
                    chunks=None if rng.chance(0.4) else [rng.choice([3, 5, 9, 17]) for _ in range(nchunks)],
                    torn=rng.choice([0.01, 0.3, 0.5, 0.9, 0.99]),
                    recover_same_pid=rng.chance(0.5), variant=route, rel=rng.fork('rel').chance(0.3))

    # ------------------------------------------------------------------
    def _target(self, case):
        name = case['decl']['name']
        ext = '.py' if case['decl']['source'] is None else '.c'
        if case['route'] == 'compile_py':
            return os.path.join(ROOT, 'out', *name.split('.')) + ext
        return os.path.join(ROOT, 'out', name.replace('.', '_') + ext)

    def _op(self, ffi, case, fs):
        """run the regeneration once; returns `updated` (or None when the route does not expose it)"""
        self.seam.fs = fs
        route = case['route']
        decl = case['decl']
        target = self._target(case)
        arg = target
        if case.get('rel') and route == 'compile_py':
            fs.cwd = os.path.join(ROOT, 'out')
        elif case.get('rel'):
            # the target is given as a bare file name, relative to the (virtual) current directory
            fs.cwd = os.path.dirname(target)
            arg = os.path.basename(target)
        buf = io.StringIO()
        try:
            with contextlib.redirect_stdout(buf), contextlib.redirect_stderr(buf):
                if route == 'emit_c':
                    ffi.emit_c_code(arg); return None
                if route == 'emit_py':
                    ffi.emit_python_code(arg); return None
                if route == 'compile_py':
                    if case.get('rel'):
                        r = ffi.compile()          # tmpdir defaults to '.', the (virtual) current directory
                        r = os.path.normpath(os.path.join(fs.cwd, r))
                    else:
                        r = ffi.compile(tmpdir=os.path.join(ROOT, 'out'))
                    if r != target:
                        raise HarnessError('compile() wrote to %r, expected %r' % (r, target))
                    return None
                if route == 'recompile_c':
                    return self.rec.recompile(ffi, decl['name'], decl['source'], c_file=arg,
                                              call_c_compiler=False, uses_ffiplatform=False)[1]
                if route == 'recompile_py':
                    return self.rec.recompile(ffi, decl['name'], None, c_file=arg,
                                              call_c_compiler=False, uses_ffiplatform=False)[1]
                if route == 'make_c':
                    return self.rec.make_c_source(ffi, decl['name'], decl['source'], arg)
                if route == 'make_py':
                    return self.rec.make_py_source(ffi, decl['name'], arg)
                raise HarnessError('unknown route')
        finally:
            self.seam.fs = None

    def _initial_fs(self, case, new):
        fs = SimFS()
        fs.bufsize = case['bufsize']
        # short writes: each raw write accepts about 1/d of what it is offered (at least 512
        # bytes), so that the number of I/O steps -- and crash points -- stays bounded
        if case['chunks']:
            fs.chunks = [max(512, len(new) // d) for d in case['chunks']]
        fs.dirs.add(os.path.join(ROOT, 'out'))
        target = self._target(case)
        old = case['old']
        tmp_same = '%s.~%d' % (target, fs.pid)
        if case['route'] == 'compile_py' and '.' in case['decl']['name'] and old not in ('absent',):
            fs.dirs.add(os.path.dirname(target))
        if old == 'identical':
            fs.put(target, new)
        elif old == 'different':
            fs.put(target, b'/* an older generated file */\n' + new[:len(new) // 2] + b'\nint old;\n')
        elif old == 'prefix':
            fs.put(target, new[:max(1, len(new) - 7)])
        elif old == 'trailing':
            fs.put(target, new + b'\n/* trailing */\n')
        elif old == 'empty':
            fs.put(target, b'')
        elif old == 'non_utf8':
            fs.put(target, b'\xff\xfe\x00garbage' + new[:50])
        elif old == 'stale_tmp_same_pid':
            fs.put(target, b'/* old */\n')
            junk = b'/* half written by a previous, crashed run with the same pid */' + new[:100]
            if case.get('bufsize', 0) % 3 == 1 or len(new) % 2:
                junk = new + b'\n/* leftover tail of an older, longer temp file */\n' * 7
            fs.put(tmp_same, junk)
        elif old == 'stale_tmp_other_pid':
            fs.put(target, b'/* old */\n')
            fs.put('%s.~%d' % (target, fs.pid + 1), new[:100])
        return fs

    def execute(self, case):
        out = Outcome()
        decl = case['decl']
        try:
            ffi = cdefgen.build_ffi(self.cffi, decl)
        except Exception as e:
            return out.harness('generated cdef rejected: %r' % (e,))
        target = self._target(case)
        # the new text: render once on an empty file system
        fs0 = SimFS()
        fs0.dirs.add(os.path.join(ROOT, 'out'))
        try:
            self._op(ffi, case, fs0)
        except OSError as e:
            return out.violate('C23.2', 'regeneration into an empty directory failed with %r (%s target)'
                               % (e, 'relative' if case.get('rel') else 'absolute'), 0)
        except Exception as e:
            return out.harness('fault-free rendering failed: %r' % (e,))
        new = fs0.get(target)
        if new is None:
            return out.harness('fault-free rendering did not create %s (files: %r)' % (target, sorted(fs0.files)))
        out.faults['crash_at_step'] = 0
        out.faults['torn_write'] = 0
        out.faults['short_write_runs'] = 0
        base = self._initial_fs(case, new)
        old_bytes = base.get(target)
        must_replace = (old_bytes != new)
        # ---- fault-free run ----
        fs = base.clone()
        before = fs.stat(target)
        exc = None
        try:
            updated = self._op(ffi, case, fs)
        except UnicodeDecodeError as e:
            exc = e
            updated = None
        except Exception as e:
            return out.violate('C23.2', 'fault-free regeneration raised %r (old state %s)' % (e, case['old']), 0)
        nsteps = fs.nsteps()
        kinds = [k for k, _ in fs.log]
        out.steps += nsteps
        if fs.chunks:
            out.faults['short_write_runs'] += 1
        if exc is not None:
            # an undecodable old target: the statement only requires old-or-new
            out.unspec('undecodable_old_target_raises')
            if fs.get(target) not in (old_bytes, new):
                return out.violate('C23.3', 'target is neither old nor new after UnicodeDecodeError', 0)
        else:
            if fs.get(target) != new:
                return out.violate('C23.2', 'after a complete regeneration the target does not hold the new text '
                                   '(old state %s)' % case['old'], 0)
            if not must_replace:
                after = fs.stat(target)
                if fs.mutating_steps() != 0 or after != before:
                    return out.violate('C23.2', 'target content was already identical but the run mutated the file '
                                       'system: steps %r' % (kinds,), 0)
                if updated is not None and updated is not False:
                    return out.violate('C23.2', 'target already identical but reported updated=%r' % (updated,), 0)
                out.probe('idempotent_no_touch')
            else:
                if updated is not None and updated is not True:
                    return out.violate('C23.2', 'target was replaced but reported updated=%r' % (updated,), 0)
                if case['old'] == 'trailing':
                    out.probe('read_len_plus_one_detects_trailing_bytes')
            # a second call on the result is a no-op
            before2 = fs.stat(target)
            fs.log = []
            upd2 = self._op(ffi, case, fs)
            if fs.mutating_steps() != 0 or fs.stat(target) != before2 or (upd2 is not None and upd2 is not False):
                return out.violate('C23.2', 'a repeated call on an up-to-date target touched it '
                                   '(updated=%r, steps=%r)' % (upd2, [k for k, _ in fs.log]), 0)
        # ---- crash at every step ----
        seqd = digest_of(kinds)
        variants = []
        for k in range(nsteps):
            variants.append((k, None))
            if kinds[k] == 'write':
                variants.append((k, case['torn']))
        nontrivial = set()
        for (k, torn) in variants:
            fs = base.clone()
            fs.crash_at = k
            fs.torn = torn
            crashed = False
            try:
                self._op(ffi, case, fs)
            except SimCrash:
                crashed = True
            except UnicodeDecodeError:
                pass
            except Exception as e:
                return out.violate('C23.3', 'unexpected %r in a run that was to crash at step %d' % (e, k), k)
            out.steps += fs.nsteps()
            if not crashed:
                if fs.crashed:
                    # the crash fired but the exception was swallowed by the code under test:
                    # the file system is frozen anyway, evaluate as a crash
                    crashed = True
                    out.probe('crash_exception_swallowed')
                else:
                    return out.harness('crash at step %d/%d did not fire (steps now %d)' % (k, nsteps, fs.nsteps()))
            out.faults['crash_at_step'] += 1
            if fs.torn_fired:
                out.faults['torn_write'] += 1
            got = fs.get(target)
            if got != old_bytes and got != new:
                what = 'absent' if got is None else '%d bytes, a %s of the new text' % (
                    len(got), 'prefix' if new.startswith(got) else 'non-prefix')
                return out.violate('C23.3', 'crash at step %d (%s%s) of %r leaves the target %s; old state %s'
                                   % (k, kinds[k], ' torn' if torn else '', kinds, what, case['old']), k)
            mut_before = sum(1 for kk, m in fs.log[:k] if m)
            if must_replace and (mut_before > 0 or fs.log[k][1]):
                nontrivial.add((seqd, k, bool(torn), case['old']))
            self._probe_crash_position(out, kinds, k, torn)
            # ---- recovery ----
            pre = fs.get(target)
            fs.crashed = False
            fs.crash_at = None
            fs.torn = None
            fs.log = []
            if not case['recover_same_pid']:
                fs.pid += 17
            try:
                upd = self._op(ffi, case, fs)
            except UnicodeDecodeError:
                out.unspec('undecodable_old_target_raises')
                continue
            except Exception as e:
                return out.violate('C23.3', 'recovery run after a crash at step %d (%s) raised %r'
                                   % (k, kinds[k], e), k)
            out.steps += fs.nsteps()
            if fs.get(target) != new:
                return out.violate('C23.3', 'recovery run after a crash at step %d did not produce the new text' % k, k)
            if upd is not None and upd is not (pre != new):
                return out.violate('C23.2', 'recovery run reported updated=%r but the target %s'
                                   % (upd, 'differed' if pre != new else 'was already identical'), k)
        # ---- I/O *errors* (outside the property's quantifier): probe configuration, counted only ----
        import errno as _errno
        for k in range(nsteps):
            if kinds[k] not in ('write', 'rename', 'open-w'):
                continue
            fs = base.clone()
            fs.errors = {k: _errno.ENOSPC if kinds[k] == 'write' else _errno.EACCES}
            raised = None
            try:
                self._op(ffi, case, fs)
            except SimCrash:
                continue
            except Exception as e:
                raised = e
            out.fault('io_error_' + kinds[k])
            got = fs.get(target)
            if got == new or got == old_bytes:
                out.unspec('io_error_run_leaves_old_or_new')
            else:
                out.unspec('io_error_run_leaves_other_content')
            if any(kk == 'unlink' for kk, _ in fs.log):
                out.probe('unlink_rename_fallback_reached')
        out.probe('faulted_executions', len(variants))
        out.probe('cases_old_' + case['old'])
        # several distinct non-trivial crash placements per case: count them all
        out.nontrivial = bool(nontrivial)
        out.digest = digest_of(sorted(nontrivial) or [seqd, case['old'], 'trivial'])
        out.nt_digests = [digest_of(x) for x in sorted(nontrivial)]
        out.sample = dict(route=case['route'], old=case['old'], bufsize=case['bufsize'], chunks=case['chunks'],
                          module=decl['name'], cdef_head=decl['cdef'][:160], io_steps=kinds,
                          crash_points=len(variants), new_len=len(new))
        return out

    def _probe_crash_position(self, out, kinds, k, torn):
        kind = kinds[k]
        if torn:
            out.probe('crash_torn_write')
        if kind == 'close' and k > 0 and kinds[k - 1] == 'write':
            out.probe('crash_between_last_write_and_close')
        if kind == 'rename':
            out.probe('crash_between_close_and_rename')
        if kind == 'open-w':
            out.probe('crash_before_tmp_created')
        if kind == 'unlink':
            out.probe('crash_in_unlink_fallback')

    # ------------------------------------------------------------------
    def shrink_candidates(self, case):
        decl = case['decl']
        lines = decl['cdef'].split('\n')
        if len(lines) > 1:
            for i in range(len(lines)):
                yield dict(case, decl=dict(decl, cdef='\n'.join(lines[:i] + lines[i + 1:])))
        if case['chunks']:
            yield dict(case, chunks=None)
        if case['bufsize'] != 8192:
            yield dict(case, bufsize=8192)

    def signature(self, case, out):
        return '%s/%s' % (out.clause, case.get('old'))

    # ------------------------------------------------------------------
    # Part B: determinism across processes / hash seeds / histories
    # ------------------------------------------------------------------
    def post_batch(self, tier, stats):
        verif_seed = int(os.environ.get('VERIF_SEED', '0') or 0)
        ncdefs = 96 if tier == "quick" else 800
        rng = PRNG(core.derive(verif_seed, 'C23', 'partB'))
        cases = []
        for i in range(ncdefs):
            abi = (i % 3 == 0)
            cases.append(cdefgen.gen_case(rng.fork(i), abi))
        hashseeds = ['0', str(4294967295)] + [str(rng.below(4294967295)) for _ in range(2 if tier == 'quick' else 4)]
        histories = ['plain', 'other_ffis_first', 'alloc_shift', 'reverse_order']
        configs = []
        for i, hs in enumerate(hashseeds):
            configs.append((hs, histories[i % len(histories)]))
        configs.append(('0', 'twice'))
        configs.append(('0', 'emit_midway'))
        procs = []
        env0 = dict(os.environ)
        for hs, hist in configs:
            env = dict(env0, PYTHONHASHSEED=hs)
            p = subprocess.Popen([sys.executable, '-B', RENDER_SCRIPT, self.bdir, core.REPO, hist],
                                 stdin=subprocess.PIPE, stdout=subprocess.PIPE, stderr=subprocess.PIPE, env=env)
            procs.append((hs, hist, p))
        results = []
        payload = json.dumps(cases).encode()
        for hs, hist, p in procs:
            o, e = p.communicate(payload)
            if p.returncode != 0:
                raise HarnessError('render subprocess failed (hashseed %s, %s): %s' % (hs, hist, e.decode()[-800:]))
            results.append((hs, hist, json.loads(o.decode())))
        viol = []
        ref = results[0][2]
        mism = 0
        for hs, hist, r in results[1:]:
            for i in range(ncdefs):
                if r[i] != ref[i]:
                    mism += 1
                    if len(viol) < 2:
                        case = dict(kind='partB', decl=cases[i], hashseeds=[results[0][0], hs],
                                    histories=[results[0][1], hist], run_index='B%d' % i)
                        outd = dict(verdict='violation', clause='C23.1', op=i, digest='',
                                    detail='rendered text differs between interpreters: PYTHONHASHSEED=%s/%s vs %s/%s '
                                           '(sha %s vs %s) for module %s' % (results[0][0], results[0][1], hs, hist,
                                                                             ref[i][:12], r[i][:12], cases[i]['name']))
                        path = core.write_replay(self, case, outd, tier, verif_seed, tag='partB')
                        viol.append((case, outd, path))
        stats.extra['partB'] = dict(cdefs=ncdefs, interpreters=len(configs),
                                    configs=['PYTHONHASHSEED=%s/%s' % (h, x) for h, x in configs],
                                    digest_comparisons=(len(configs) - 1) * ncdefs, mismatches=mism,
                                    note='configuration sweep, not simulation: reported separately')
        return viol

    def replay_partB(self, case):
        out = Outcome()
        digs = []
        for hs, hist in zip(case['hashseeds'], case['histories']):
            env = dict(os.environ, PYTHONHASHSEED=hs)
            p = subprocess.run([sys.executable, '-B', RENDER_SCRIPT, self.bdir, core.REPO, hist],
                               input=json.dumps([case['decl']]).encode(), stdout=subprocess.PIPE,
                               stderr=subprocess.PIPE, env=env)
            if p.returncode != 0:
                return out.harness('render subprocess failed: %s' % p.stderr.decode()[-500:])
            digs.append(json.loads(p.stdout.decode())[0])
        out.digest = digest_of(digs)
        if len(set(digs)) > 1:
            out.violate('C23.1', 'rendered text differs between interpreters: %r' % (digs,), 0)
        return out


class _C23(C23):
    def execute(self, case):
        if case.get('kind') == 'partB':
            return self.replay_partB(case)
        return C23.execute(self, case)


CHECK = _C23()
