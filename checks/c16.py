"""C16 -- array and pointer indexing, slicing and arithmetic (engine H: history
refinement against a byte model over aliased views, with faults placed inside
multi-element slice assignments).  Weakest fit for simulation: no scheduler."""
import os, sys, gc, struct
from sim import core, build, hist
from sim.core import Outcome, PRNG, HarnessError, digest_of

CDEF = ("struct sb { short a; signed char b; }; struct s3 { signed char a, b, c; };"
        " struct s6 { short a, b, c; };")
KINDS = {
    # name: (C type, struct fmt or None, size, min, max)
    'i8': ('signed char', 'b', 1, -128, 127), 'u8': ('unsigned char', 'B', 1, 0, 255),
    'i16': ('short', 'h', 2, -2 ** 15, 2 ** 15 - 1), 'u16': ('unsigned short', 'H', 2, 0, 2 ** 16 - 1),
    'i32': ('int', 'i', 4, -2 ** 31, 2 ** 31 - 1), 'u32': ('unsigned int', 'I', 4, 0, 2 ** 32 - 1),
    'i64': ('long long', 'q', 8, -2 ** 63, 2 ** 63 - 1), 'u64': ('unsigned long long', 'Q', 8, 0, 2 ** 64 - 1),
    'bool': ('_Bool', '?', 1, 0, 1), 'f32': ('float', 'f', 4, None, None), 'f64': ('double', 'd', 8, None, None),
    'ptr': ('char *', 'P', 8, 0, 2 ** 48), 'sb': ('struct sb', None, 4, None, None), 'char': ('char', 'c', 1, None, None),
    # item sizes that are not a power of two
    's3': ('struct s3', 'bbb', 3, None, None), 's6': ('struct s6', 'hhh', 6, None, None),
    # character types wider than one byte: items are str of length 1, slices can be assigned from a str
    'wchar': ('wchar_t', '<I', 4, None, None), 'c16': ('char16_t', '<H', 2, None, None),
    'c32': ('char32_t', '<I', 4, None, None),
}
WIDE = ('wchar', 'c16', 'c32')
WIDE_CP = [0x41, 0x7a, 0xe9, 0x3b1, 0x4e2d, 0xfffd, 0x20ac, 0x30]
KNAMES = sorted(KINDS)


class Violation(Exception):
    def __init__(self, clause, detail):
        self.clause = clause
        self.detail = detail


class Boom(Exception):
    pass


class Run(object):
    def __init__(self, check, case, out):
        self.check = check
        self.ffi = check.ffi
        self.case = case
        self.out = out
        self.allocs = []      # dict(base=cdata owning array, model=bytearray, kind, n, mask)
        self.views = []       # dict(cd, alloc index, off (bytes), kind, n (None = pointer), owning)
        self.opi = 0
        self.trace = []

    # ---- model helpers ----
    def enc(self, kind, v):
        ctype, fmt, size, lo, hi = KINDS[kind]
        if kind == 'sb':
            return struct.pack('hb', v[0], v[1]) + b'\0'
        if kind in ('s3', 's6'):
            return struct.pack(fmt, *v)
        if kind == 'char':
            return v
        if kind in WIDE:
            return struct.pack(fmt, ord(v))
        if kind == 'bool':
            return struct.pack('?', bool(v))
        return struct.pack(fmt, v)

    def value(self, kind, r):
        """a valid value for this kind derived from integer r"""
        ctype, fmt, size, lo, hi = KINDS[kind]
        if kind == 'sb':
            return (r % 60000 - 30000, r % 200 - 100)
        if kind == 's3':
            return (r % 200 - 100, r // 7 % 200 - 100, r // 49 % 200 - 100)
        if kind == 's6':
            return (r % 60000 - 30000, r // 7 % 60000 - 30000, r // 49 % 60000 - 30000)
        if kind == 'char':
            return bytes([r % 256])
        if kind in WIDE:
            cps = WIDE_CP + ([0x1f600, 0x10ffff] if kind != 'c16' else [0xffff, 0xd7ff])
            return chr(cps[r % len(cps)])
        if kind in ('f32', 'f64'):
            return (r % 4001 - 2000) * 0.25
        if kind == 'bool':
            return r % 2
        if kind == 'ptr':
            return (r * 4096) % (2 ** 47)
        return lo + r % (hi - lo + 1)

    def to_c(self, kind, v):
        """Python object to assign"""
        if kind == 'sb':
            return {'a': v[0], 'b': v[1]}
        if kind in ('s3', 's6'):
            return {'a': v[0], 'b': v[1], 'c': v[2]}
        if kind == 'ptr':
            return self.ffi.cast('char *', v)
        return v

    def from_c(self, kind, x):
        if kind == 'sb':
            return (x.a, x.b)
        if kind in ('s3', 's6'):
            return (x.a, x.b, x.c)
        if kind == 'ptr':
            return int(self.ffi.cast('uintptr_t', x))
        if kind == 'bool':
            return int(x)
        return x

    def bad_value(self, kind, r):
        ctype, fmt, size, lo, hi = KINDS[kind]
        if kind in ('sb', 's3', 's6'):
            return 'notastruct'
        if kind in ('f32', 'f64', 'char'):
            return [1, 2]           # wrong type
        if kind in WIDE:
            return [[1, 2], 'ab', b'a', 65][r % 4]
        if kind == 'ptr':
            return 12345            # int is not a pointer
        if r % 3 == 0:
            return 'x'
        return hi + 1 + r % 5 if r % 2 else lo - 1 - r % 5

    def check_memory(self, where):
        for ai, a in enumerate(self.allocs):
            got = bytes(self.ffi.buffer(a['base']))
            m = a['model']
            if len(got) != len(m):
                raise Violation('C16.2', 'allocation %d changed size (%s)' % (ai, where))
            if got != bytes(m):
                mask = a['mask']
                for i in range(len(got)):
                    if got[i] != m[i] and not mask[i]:
                        raise Violation(self.cur_clause, 'allocation %d (%s[%d]): byte %d is %#x, model says %#x (%s)'
                                        % (ai, KINDS[a['kind']][0], a['n'], i, got[i], m[i], where))

    # ---- ops ----
    def op_new(self, kind, n, owning_ptr):
        ctype = KINDS[kind][0]
        size = KINDS[kind][2]
        if owning_ptr:
            base = self.ffi.new(ctype + '[1]')        # the allocation is observed through an array ...
            n = 1
        else:
            base = self.ffi.new('%s[%d]' % (ctype, n))
        mask = bytearray(n * size)
        if kind == 'sb':
            for i in range(n):
                mask[i * 4 + 3] = 1
        self.allocs.append(dict(base=base, model=bytearray(n * size), kind=kind, n=n, mask=mask))
        ai = len(self.allocs) - 1
        self.views.append(dict(cd=base, a=ai, off=0, kind=kind, n=n, owning=False))
        if owning_ptr:
            # ... and a genuinely owning pointer from ffi.new('T *') is a separate allocation of one item
            p = self.ffi.new(ctype + ' *')
            self.views.append(dict(cd=p, a=None, off=0, kind=kind, n=None, owning=True, own_model=bytearray(size)))

    def pick(self, k, pred=None):
        c = [v for v in self.views if pred is None or pred(v)]
        if not c:
            return None
        return c[k % len(c)]

    def resolve_index(self, v, sel, r):
        """index classes: in (valid), neg, eq (== n), big, huge"""
        n = v['n']
        if sel == 'in':
            return r % n if n else 0
        if sel == 'neg':
            return -1 - r % 3
        if sel == 'eq':
            return n
        if sel == 'big':
            return n + 1 + r % 5
        if sel == 'ssmax':
            return 2 ** 63 - 1 - r % 2
        if sel == 'ssmin':
            return -2 ** 63 + r % 2
        return 2 ** 70 + r

    def elem_ok(self, v, i):
        """may element i of view v be dereferenced (model has it)?"""
        if v['a'] is None:
            return i == 0
        a = self.allocs[v['a']]
        size = KINDS[v['kind']][2]
        o = v['off'] + i * size
        return 0 <= o and o + size <= len(a['model'])

    def model_get(self, v, i):
        size = KINDS[v['kind']][2]
        if v['a'] is None:
            return bytes(v['own_model'][0:size])
        a = self.allocs[v['a']]
        o = v['off'] + i * size
        return bytes(a['model'][o:o + size])

    def model_set(self, v, i, raw):
        size = KINDS[v['kind']][2]
        if v['a'] is None:
            v['own_model'][0:size] = raw
            return
        a = self.allocs[v['a']]
        o = v['off'] + i * size
        a['model'][o:o + size] = raw

    def decode(self, kind, raw):
        if kind == 'sb':
            return struct.unpack('hb', raw[:3])
        if kind in ('s3', 's6'):
            return struct.unpack(KINDS[kind][1], raw)
        if kind == 'char':
            return raw
        if kind in WIDE:
            return chr(struct.unpack(KINDS[kind][1], raw)[0])
        if kind == 'bool':
            return int(raw[0] != 0)
        return struct.unpack(KINDS[kind][1], raw)[0]

    def op_index(self, k, sel, r, write):
        v = self.pick(k)
        if v is None:
            return
        kind = v['kind']
        if v['n'] is None:
            # pointer: owning -> only index 0; non-owning -> any in-allocation index (no bounds check in C)
            if v['owning']:
                if sel == 'in':
                    i = 0
                elif sel == 'neg':
                    i = -1 - r % 2
                elif sel in ('huge', 'ssmax', 'ssmin'):
                    # huge indices, including those whose byte offset wraps around to 0 modulo 2**64
                    i = [2 ** 61, -2 ** 61, 2 ** 62, -2 ** 62, 2 ** 60, -2 ** 63, 2 ** 63 - 1, 2 ** 63 - 8][r % 8]
                else:
                    i = 1 + r % 3
                accept = (i == 0)
            else:
                a = self.allocs[v['a']]
                size = KINDS[kind][2]
                lo = -(v['off'] // size)
                hi = (len(a['model']) - v['off']) // size
                if hi - lo <= 0:
                    return
                i = lo + r % (hi - lo)
                accept = True
                if i != 0:
                    self.out.probe('pointer_view_indexed_away_from_zero')
        else:
            i = self.resolve_index(v, sel, r)
            accept = 0 <= i < v['n']
        self.cur_clause = 'C16.1'
        val = self.value(kind, r)
        try:
            if write:
                v['cd'][i] = self.to_c(kind, val)
                got = None
            else:
                got = self.from_c(kind, v['cd'][i])
        except IndexError:
            if accept:
                raise Violation('C16.1', 'x[%d] on %s of length %r raised IndexError' % (i, KINDS[kind][0], v['n']))
            self.out.probe('index_rejected_' + sel)
            return
        except Exception as e:
            raise Violation('C16.1', 'x[%d] (%s) on %s of length %r raised %s (%s): an index is either accepted or '
                            'refused with IndexError' % (i, 'write' if write else 'read', KINDS[kind][0], v['n'],
                                                         type(e).__name__, e))
        if not accept:
            raise Violation('C16.1', 'x[%d] (%s) on %s of length %r was accepted'
                            % (i, 'write' if write else 'read', KINDS[kind][0], v['n']))
        if write:
            self.model_set(v, i, self.enc(kind, val))
        else:
            want = self.decode(kind, self.model_get(v, i))
            if got != want:
                raise Violation('C16.2', 'x[%d] reads %r, model says %r (%s, view at byte %d)'
                                % (i, got, want, KINDS[kind][0], v['off']))

    def op_slice(self, k, si, sj, r, step):
        v = self.pick(k, lambda v: v['n'] is not None)
        if v is None:
            return
        n = v['n']
        i, j = self.slice_bounds(n, si, sj, r)
        accept = (0 <= i <= j <= n) and not step
        self.cur_clause = 'C16.1'
        try:
            if step:
                s = v['cd'][i:j:2]
            else:
                s = v['cd'][i:j]
        except IndexError:
            if accept:
                raise Violation('C16.1', 'x[%d:%d] on length %d raised IndexError' % (i, j, n))
            self.out.probe('slice_rejected')
            return
        except Exception as e:
            raise Violation('C16.1', 'x[%d:%d%s] on length %d raised %s (%s): a slice is either accepted or refused '
                            'with IndexError' % (i, j, ':2' if step else '', n, type(e).__name__, e))
        if not accept:
            raise Violation('C16.1', 'x[%d:%d%s] on length %d was accepted' % (i, j, ':2' if step else '', n))
        if len(s) != j - i:
            raise Violation('C16.2', 'x[%d:%d] has length %d' % (i, j, len(s)))
        size = KINDS[v['kind']][2]
        nv = dict(cd=s, a=v['a'], off=v['off'] + i * size, kind=v['kind'], n=j - i, owning=False)
        if v.get('isview'):
            self.out.probe('view_of_view')
        nv['isview'] = True
        self.views.append(nv)

    def slice_bounds(self, n, si, sj, r):
        def one(sel, salt):
            x = r // salt
            if sel == 'in':
                return x % (n + 1)
            if sel == 'neg':
                return -1 - x % 3
            if sel == 'big':
                return n + 1 + x % 4
            if sel == 'huge':
                # bounds that do not fit a C ssize_t, and the extremes that just do
                return [2 ** 63, 2 ** 70 + x % 5, -2 ** 63 - 1, -2 ** 70, 2 ** 63 - 1, -2 ** 63, 2 ** 64, 2 ** 64 + n][x % 8]
            return n
        return one(si, 1), one(sj, 7)

    def op_slice_assign(self, k, si, sj, r, src, count, fault):
        v = self.pick(k, lambda v: v['n'] is not None)
        if v is None:
            return
        kind = v['kind']
        n = v['n']
        i, j = self.slice_bounds(n, si, sj, r)
        ok_bounds = 0 <= i <= j <= n
        need = j - i if ok_bounds else 2
        cnt = {'right': need, 'less': max(0, need - 1 - r % 2), 'more': need + 1 + r % 2}[count]
        vals = [self.value(kind, r + 17 * t) for t in range(cnt)]
        items = [self.to_c(kind, x) for x in vals]
        fk = None
        if fault != 'none' and cnt > 0:
            fk = r % cnt
        boom_at = None
        if fault == 'unconvertible' and fk is not None:
            items[fk] = self.bad_value(kind, r)
        if fault == 'iter_raises' and fk is not None:
            boom_at = fk
        used = 'list'
        if src == 'cdata' and fault == 'none':
            used = 'cdata'
            if kind in ('sb', 's3', 's6'):
                tmp = self.ffi.new('%s[%d]' % (KINDS[kind][0], cnt), [self.to_c(kind, x) for x in vals])
            else:
                tmp = self.ffi.new('%s[%d]' % (KINDS[kind][0], cnt), items)
            value = tmp
            self.out.probe('slice_assign_from_cdata_array')
        elif src == 'bytes' and kind == 'char' and fault == 'none' and ok_bounds and need >= 2 and need % 2 == 0 \
                and cnt == need and r % 3 == 0:
            # a buffer object of the right size in BYTES but holding need/2 two-byte items: not j-i values
            import array
            wide = array.array('H', b''.join(vals))
            exc = None
            try:
                v['cd'][i:j] = wide
            except (ValueError, TypeError) as e:
                exc = e
            if exc is None:
                raise Violation('C16.3', "x[%d:%d] = array('H') of %d items (%d bytes) was accepted: a slice of %d "
                                'items needs exactly %d values' % (i, j, need // 2, need, need, need))
            self.out.fault('buffer_source_with_wide_items_rejected')
            return
        elif src == 'bytes' and kind == 'char' and fault == 'none':
            used = 'bytes'
            value = b''.join(vals)
        elif src == 'bytes' and kind in WIDE and fault == 'none':
            used = 'str'             # a str source: taken item by item, like any other iterable
            value = ''.join(vals)
            self.out.probe('slice_assign_from_str_to_wide_char_array')
        elif src == 'tuple' and boom_at is None:
            value = tuple(items)
        elif src == 'gen' or boom_at is not None:
            def gen():
                for t, it in enumerate(items):
                    if t == boom_at:
                        raise Boom()
                    yield it
            value = gen()
        else:
            value = list(items)
        self.cur_clause = 'C16.3'
        exc = None
        try:
            v['cd'][i:j] = value
        except IndexError as e:
            exc = e
        except (ValueError, TypeError, OverflowError, Boom) as e:
            exc = e
        if not ok_bounds:
            self.cur_clause = 'C16.1'
            if not isinstance(exc, IndexError):
                raise Violation('C16.1', 'x[%d:%d] = ... on length %d did not raise IndexError (%r)' % (i, j, n, exc))
            self.out.probe('slice_assign_rejected_bounds')
            return
        if isinstance(exc, IndexError):
            raise Violation('C16.1', 'x[%d:%d] = ... on length %d raised IndexError' % (i, j, n))
        # how many leading items were written (the narrow relaxation of DESIGN 3.11)
        if fault != 'none' and fk is not None and fk < need:
            written = fk
            if exc is None:
                raise Violation('C16.3', 'slice assignment with an unconvertible / failing item %d succeeded' % fk)
            self.out.fault('slice_assign_fails_at_item_k')
            if 0 < fk < need:
                self.out.probe('failure_at_k_strictly_inside')
        elif cnt < need:
            written = cnt
            if not isinstance(exc, ValueError):
                raise Violation('C16.3', 'x[%d:%d] = %d values: expected ValueError, got %r' % (i, j, cnt, exc))
            self.out.fault('too_few_items')
        elif cnt > need:
            written = need
            if used in ('cdata', 'bytes'):
                # wrong-length cdata/bytes source: either nothing or a prefix may have been written,
                # but it must be rejected
                if exc is None:
                    raise Violation('C16.3', 'x[%d:%d] = %d values (from %s) was accepted' % (i, j, cnt, src))
                self.out.fault('too_many_items')
                written = 0 if used == 'bytes' else need
            elif fault == 'iter_raises' and fk == need:
                # the iterator fails exactly when cffi asks for the (superfluous) next item
                if exc is None:
                    raise Violation('C16.3', 'x[%d:%d] = %d values was accepted' % (i, j, cnt))
                self.out.fault('iterator_raises_at_superfluous_item')
            else:
                if not isinstance(exc, ValueError):
                    raise Violation('C16.3', 'x[%d:%d] = %d values: expected ValueError, got %r' % (i, j, cnt, exc))
                self.out.fault('too_many_items')
        else:
            written = need
            if exc is not None:
                raise Violation('C16.3', 'x[%d:%d] = exactly %d valid values raised %r' % (i, j, need, exc))
        if used == 'bytes' and cnt != need:
            written = 0
        for t in range(written):
            self.model_set(v, i + t, self.enc(kind, vals[t]))

    def op_arith(self, k, r, back):
        v = self.pick(k, lambda v: v['a'] is not None)
        if v is None:
            return
        a = self.allocs[v['a']]
        size = KINDS[v['kind']][2]
        lo = -(v['off'] // size)
        hi = (len(a['model']) - v['off']) // size      # one-past-the-end is a valid pointer value
        d = lo + r % (hi - lo + 1)
        p = v['cd'] + d if not back else v['cd'] - (-d)
        diff = p - (v['cd'] + 0)
        if diff != d:
            raise Violation('C16.4', '(p + %d) - p == %d' % (d, diff))
        base_addr = int(self.ffi.cast('uintptr_t', a['base']))
        addr = int(self.ffi.cast('uintptr_t', p))
        if addr - base_addr != v['off'] + d * size:
            raise Violation('C16.4', 'p + %d lives %d bytes past the allocation base, expected %d'
                            % (d, addr - base_addr, v['off'] + d * size))
        self.views.append(dict(cd=p, a=v['a'], off=v['off'] + d * size, kind=v['kind'], n=None, owning=False))
        if v['n'] is None and not v['owning']:
            try:
                q = self.ffi.addressof(v['cd'], d)
            except Exception as e:
                raise Violation('C16.4', 'ffi.addressof(p, %d) raised %s: %s' % (d, type(e).__name__, e))
            if int(self.ffi.cast('uintptr_t', q)) != addr:
                raise Violation('C16.4', 'ffi.addressof(p, %d) != p + %d' % (d, d))
            if d < 0:
                self.out.probe('addressof_negative_index_on_pointer')
        if v['n'] is not None and 0 <= d <= v['n']:
            q = self.ffi.addressof(v['cd'], d) if d < v['n'] else None
            if q is not None:
                if int(self.ffi.cast('uintptr_t', q)) != addr:
                    raise Violation('C16.4', 'ffi.addressof(x, %d) != x + %d' % (d, d))
                self.out.probe('addressof_index')

    def op_diff(self, k1, k2):
        v1 = self.pick(k1, lambda v: v['a'] is not None and v['n'] is None)
        if v1 is None:
            return
        v2 = self.pick(k2, lambda v: v['a'] == v1['a'] and v['n'] is None and v['kind'] == v1['kind'])
        if v2 is None:
            return
        size = KINDS[v1['kind']][2]
        d = v1['off'] - v2['off']
        try:
            got = v1['cd'] - v2['cd']
        except ValueError:
            if d % size == 0:
                raise Violation('C16.4', 'p - q raised ValueError for an aligned distance of %d bytes' % d)
            return
        if d % size != 0:
            self.out.unspec('misaligned_pointer_difference_accepted')
            return
        if got != d // size:
            raise Violation('C16.4', 'p - q == %d, expected %d' % (got, d // size))
        self.out.probe('pointer_difference_across_views')

    def op_offsetof(self, kind, i):
        ctype, fmt, size = KINDS[kind][:3]
        if isinstance(i, list):
            # [sign, q]: an index at or just beyond the point where i * sizeof(T) leaves the ssize_t range
            lim = (2 ** 63 - 1) // size if i[0] > 0 else -((2 ** 63) // size)
            i = lim + i[0] * i[1]
        fits = -2 ** 63 <= i * size <= 2 ** 63 - 1
        try:
            got = self.ffi.offsetof(ctype + '[]', i)
        except Exception as e:
            if not fits:
                # the product is not representable: a refusal (whatever the exception) is the only right answer
                self.out.probe('offsetof_beyond_ssize_t_refused')
                return
            raise Violation('C16.4', "ffi.offsetof('%s[]', %d) raised %s: %s" % (ctype, i, type(e).__name__, e))
        if fits and abs(i) > 2 ** 40:
            self.out.probe('offsetof_huge_index_that_still_fits')
        if got != i * size or self.ffi.sizeof(ctype) != size:
            raise Violation('C16.4', "ffi.offsetof('%s[]', %d) == %d, expected %d" % (ctype, i, got, i * size))

    def op_bufwrite(self, k, r):
        v = self.pick(k, lambda v: v['n'] is not None and v['a'] is not None and v['n'] > 0)
        if v is None:
            return
        size = KINDS[v['kind']][2]
        b = self.ffi.buffer(v['cd'])
        if len(b) != v['n'] * size:
            raise Violation('C16.2', 'ffi.buffer(view) has %d bytes, expected %d' % (len(b), v['n'] * size))
        pos = r % len(b)
        if self.allocs[v['a']]['kind'] in ('bool', 'sb', 'f32', 'f64') + WIDE:
            return          # do not fabricate invalid _Bool bytes / pad bytes / NaN payloads / invalid code points
        b[pos:pos + 1] = bytes([r % 256])
        self.allocs[v['a']]['model'][v['off'] + pos] = r % 256
        self.out.probe('write_through_buffer_of_view')

    def apply(self, op):
        n = op[0]
        if n == 'new':
            self.op_new(op[1], op[2], op[3])
        elif n == 'index':
            self.op_index(op[1], op[2], op[3], op[4])
        elif n == 'slice':
            self.op_slice(op[1], op[2], op[3], op[4], op[5])
        elif n == 'sassign':
            self.op_slice_assign(op[1], op[2], op[3], op[4], op[5], op[6], op[7])
        elif n == 'arith':
            self.op_arith(op[1], op[2], op[3])
        elif n == 'diff':
            self.op_diff(op[1], op[2])
        elif n == 'offsetof':
            self.op_offsetof(op[1], op[2])
        elif n == 'bufwrite':
            self.op_bufwrite(op[1], op[2])
        elif n == 'dropview':
            if len(self.views) > 1:
                v = self.views[op[1] % len(self.views)]
                if v.get('isview') or (v['n'] is None and not v['owning']):
                    self.views.remove(v)
        elif n == 'collect':
            gc.collect()
        else:
            raise HarnessError('unknown op %r' % (op,))

    def run(self):
        self.cur_clause = 'C16.1'
        for self.opi, op in enumerate(self.case['ops']):
            self.apply(op)
            self.check_memory('after op %d %r' % (self.opi, op))
            # owning pointers: their single item
            for v in self.views:
                if v['a'] is None:
                    raw = bytes(self.ffi.buffer(v['cd']))
                    m = v['own_model']
                    if v['kind'] == 'sb':
                        raw, m = raw[:3], m[:3]
                    if raw != bytes(m):
                        raise Violation('C16.1', 'memory of an owning pointer changed unexpectedly after op %d' % self.opi)
            self.trace.append((op[0], len(self.views)))


class C16(core.Check):
    pid = 'C16'
    level = 'exploration'
    engine = 'H'
    quick_runs = 40000
    thorough_budget_s = 600
    chunk = 500
    crash_clause = 'C16.1'
    env = {'MALLOC_PERTURB_': '221', 'PYTHONMALLOC': 'malloc'}
    rule = ('one run = a seeded history of up to 50 operations over arrays of 16 element kinds (item sizes 1,2,3,4,6,8) and lengths 0-8 and '
            'views of them (index read/write with in-range, negative, ==n, too-large and huge indices; slices with '
            'every bound class and steps; slice assignment from list/tuple/generator/cdata/bytes with right and '
            'wrong counts and with the k-th item unconvertible or the iterator raising at item k; pointer '
            'add/sub/difference; addressof; offsetof; writes through ffi.buffer of a view), checked after every '
            'op against one bytearray per allocation. The fault-free configuration is plain model-based '
            'testing. non-trivial = at least one rejected op or injected fault, and a view of a view or a '
            'pointer view exists; distinct = digest of the (op, views) trace')
    components = {
        'real': ['_cffi_backend cdata indexing / slicing / slice assignment / pointer arithmetic / ffi.addressof / ffi.offsetof (private sim build)'],
        'simulated': ['nothing is scheduled; faults are placed inside multi-element slice assignments (failing item or iterator at position k)'],
        'stub': [],
    }
    assumptions = ['slice-assignment failure at item k leaves items < k written (what the code does; the statement does not forbid it)',
                   'non-integer index keys, slices of pointers and misaligned pointer differences are unspecified by the statement']

    def prepare(self, tier):
        self.bdir = build.backend(True)
        build.activate(self.bdir)
        import cffi
        self.ffi = cffi.FFI()
        self.ffi.cdef(CDEF)

    def generate(self, rng, idx, tier):
        ops = [['new', rng.choice(KNAMES), rng.randint(0, 8), False]]
        sel = ['in', 'in', 'in', 'in', 'neg', 'eq', 'big', 'huge', 'ssmax', 'ssmin']
        ssel = ['in', 'in', 'in', 'in', 'in', 'in', 'in', 'in', 'neg', 'neg', 'big', 'big', 'eq', 'eq', 'huge']
        faulty = rng.chance(0.5)
        for _ in range(rng.randint(4, 50)):
            n = rng.weighted([('new', 5), ('index', 30), ('slice', 14), ('sassign', 16), ('arith', 10), ('diff', 4),
                              ('offsetof', 2), ('bufwrite', 4), ('dropview', 3), ('collect', 1)])
            k = rng.below(1000)
            r = rng.below(10 ** 9)
            if n == 'new':
                ops.append(['new', rng.choice(KNAMES), rng.randint(0, 8), rng.chance(0.25)])
            elif n == 'index':
                ops.append(['index', k, rng.choice(sel), r, rng.chance(0.5)])
            elif n == 'slice':
                ops.append(['slice', k, rng.choice(ssel), rng.choice(ssel), r, rng.chance(0.06)])
            elif n == 'sassign':
                ops.append(['sassign', k, rng.choice(ssel), rng.choice(ssel), r,
                            rng.choice(['list', 'tuple', 'gen', 'cdata', 'bytes']),
                            rng.weighted([('right', 6), ('less', 2), ('more', 2)]),
                            rng.choice(['none', 'none', 'unconvertible', 'iter_raises']) if faulty else 'none'])
            elif n == 'arith':
                ops.append(['arith', k, r, rng.chance(0.3)])
            elif n == 'diff':
                ops.append(['diff', k, rng.below(1000)])
            elif n == 'offsetof':
                ops.append(['offsetof', rng.choice(KNAMES), rng.choice([rng.randint(0, 1000), -rng.randint(1, 5), -1, 0,
                                                                       [rng.choice([1, -1]), rng.choice([0, 0, 1, 2, -1, 7])]])])
            elif n in ('bufwrite',):
                ops.append(['bufwrite', k, r])
            elif n == 'dropview':
                ops.append(['dropview', k])
            else:
                ops.append(['collect'])
        return dict(ops=ops, variant='faulted' if faulty else 'fault-free')

    def execute(self, case):
        out = Outcome()
        run = Run(self, case, out)
        try:
            run.run()
        except Violation as v:
            out.violate(v.clause, v.detail, run.opi)
        except (HarnessError, MemoryError):
            raise
        except Exception as e:
            out.violate(getattr(run, 'cur_clause', None) or 'C16.1', hist.unexpected(e, (case['ops'][run.opi:run.opi + 1] or [None])[0]), run.opi)
        out.steps = len(case['ops'])
        out.digest = digest_of(run.trace)
        rejected = any(k.startswith('index_rejected') or k.startswith('slice_') for k in out.probes) or bool(out.faults)
        out.nontrivial = rejected and any(v.get('isview') or v['n'] is None for v in run.views)
        out.sample = dict(variant=case['variant'], ops=case['ops'][:20])
        del run.views[:], run.allocs[:]
        return out

    def shrink_candidates(self, case):
        for c in hist.shrink_ops(case):
            if c['ops'] and c['ops'][0][0] == 'new':
                yield c

    def signature(self, case, out):
        return '%s' % (out.clause,)


CHECK = C16()
