"""One interpreter-shutdown scenario per process (C36 clause 4): foreign threads that
have exited but whose thread states were not reclaimed yet, that are alive and parked in
the mailbox callback, or parked inside a callback body -- then the interpreter exits
normally.  The parent judges exit status, the end marker and stderr."""
import sys, os, json, gc, _thread
sys.path.insert(0, os.path.dirname(os.path.dirname(os.path.abspath(__file__))))
case = json.loads(sys.argv[1])
try:
    from sim import build, ftdriver
    bdir = build.backend(case['variant'] == 'T')
    hdir = ftdriver.build_helper(bdir)
    build.activate(bdir)
    sys.path.insert(0, hdir)
    import _verif_ft
except Exception as e:
    print('HARNESS', repr(e))
    sys.exit(2)
lib, ffi = _verif_ft.lib, _verif_ft.ffi
n = case['nthreads']
idle = [_thread.allocate_lock() for _ in range(n)]
go = [_thread.allocate_lock() for _ in range(n)]
inside = [_thread.allocate_lock() for _ in range(n)]
forever = _thread.allocate_lock()
forever.acquire()
for l in idle + go + inside:
    l.acquire()
park_inside = set()
import threading
tl = threading.local()


@ffi.callback("int(int)")
def on_idle(fid):
    idle[fid].release()
    go[fid].acquire()
    return 0


@ffi.callback("int(int, int)")
def cb(who, arg):
    tl.v = getattr(tl, 'v', 0) + 1
    threading.current_thread()
    if who in park_inside:
        inside[who].release()
        forever.acquire()
    return arg * 2 + 1


lib.ft_set_callbacks(on_idle, cb)
scen = case['scenario']
for i in range(n):
    lib.ft_start(i)
    idle[i].acquire()
    lib.ft_post(i, 1, 5, case['calls'], 0)
    go[i].release()
    idle[i].acquire()


def exit_thread(i):
    lib.ft_post(i, 2, 0, 0, 0)
    go[i].release()
    lib.ft_join(i)


def park_in_callback(i):
    park_inside.add(i)
    lib.ft_post(i, 1, 7, 1, 0)
    go[i].release()
    inside[i].acquire()


if scen == 'exited_unreclaimed':
    for i in range(n):
        exit_thread(i)
elif scen == 'alive_in_mailbox':
    pass
elif scen == 'parked_inside_callback':
    for i in range(n):
        park_in_callback(i)
elif scen == 'mixed':
    for i in range(n):
        if i % 3 == 0:
            exit_thread(i)
        elif i % 3 == 1:
            park_in_callback(i)
elif scen == 'blocked_in_c_joined_at_exit':
    # some threads exit normally first; the others block in C and are joined by a libc atexit
    # handler, i.e. they terminate AFTER the interpreter has finalized (and cleared their thread states)
    import time
    lib.ft_arm_atexit()
    for i in range(n):
        if i % 2 == 1 and n > 1:
            exit_thread(i)
        else:
            lib.ft_post(i, 3, 0, 0, 0)
            go[i].release()
            for _ in range(2000):
                if lib.ft_is_waiting(i):
                    break
                time.sleep(0.005)
else:   # collect_then_exit
    gc.collect()
    for i in range(n):
        exit_thread(i)
    gc.collect()
sys.stdout.write('END-MARKER %s tstates=%d\n' % (scen, lib.count_tstates()))
sys.stdout.flush()
