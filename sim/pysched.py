"""Engine P: seeded baton-passing scheduler over real Python threads.

Exactly one client thread runs at any instant; all others are parked on a raw
_thread lock.  The thread that yields takes the scheduling decision itself.
Pre-emption points: sys.monitoring INSTRUCTION events on selected code
objects, SimLock operations, explicit point() calls in workload callables and
the lock hook of the backend shim.
"""
import sys, _thread, threading, ctypes
from .core import PRNG, HarnessError

RUNNABLE, BLOCKED, DONE, NEW, IDLE = 'R', 'B', 'D', 'N', 'I'
TOOL_ID = 4


class Deadlock(Exception):
    pass


class StepCap(Exception):
    pass


class Abandon(BaseException):
    """raised inside parked clients when a run is torn down"""


class Client(object):
    def __init__(self, cid, fn):
        self.id = cid
        self.fn = fn
        self.go = _thread.allocate_lock()
        self.go.acquire()
        self.status = RUNNABLE
        self.blocked_on = None
        self.error = None
        self.ident = None
        self.prio = 0
        self.foreign = False


class Sched(object):
    """strategy: 'random' | 'sticky' | 'pct' ; decisions: recorded list for replay"""

    def __init__(self, rng, strategy='random', decisions=None, repair=True,
                 step_cap=20000, pct_changes=2, est_len=200, stick=0.8):
        self.rng = rng
        self.strategy = strategy
        self.replay = list(decisions) if decisions is not None else None
        self.replay_pos = 0
        self.repair = repair
        self.clients = []
        self.holder = None
        self.trace = []
        self.schedule = []
        self.steps = 0
        self.step_cap = step_cap
        self.verdict = None
        self.deadlock_info = None
        self.main_lock = _thread.allocate_lock()
        self.main_lock.acquire()
        self.active = False
        self.by_ident = {}
        self.stick = stick
        self.switches = 0
        self.replay_mismatch = None
        self.keep_threads = False
        self.threads = []
        self._pct_points = []
        if strategy == 'pct' and self.replay is None:
            self._pct_points = sorted(rng.below(max(1, est_len)) for _ in range(pct_changes))

    # ---- setup ----
    def add_client(self, fn, foreign=False):
        c = Client(len(self.clients), fn)
        c.foreign = foreign
        self.clients.append(c)
        return c

    # ---- decisions ----
    def _decide(self, runnable, me):
        if len(runnable) == 1:
            return runnable[0]
        if self.replay is not None:
            if self.replay_pos < len(self.replay):
                want = self.replay[self.replay_pos]
                self.replay_pos += 1
                for c in runnable:
                    if c.id == want:
                        self.schedule.append(c.id)
                        return c
                if not self.repair:
                    self.replay_mismatch = (self.steps, want)
                    raise HarnessError('replay mismatch at step %d: client %r not runnable'
                                       % (self.steps, want))
            # exhausted or infeasible: stay if possible else lowest id
            nxt = me if (me is not None and me in runnable) else runnable[0]
            self.schedule.append(nxt.id)
            return nxt
        s = self.strategy
        if s == 'random':
            nxt = runnable[self.rng.below(len(runnable))]
        elif s == 'sticky':
            if me is not None and me in runnable and self.rng.random() < self.stick:
                nxt = me
            else:
                nxt = runnable[self.rng.below(len(runnable))]
        else:  # pct
            while self._pct_points and self._pct_points[0] <= self.steps:
                self._pct_points.pop(0)
                if me is not None:
                    me.prio = min(c.prio for c in self.clients) - 1
            nxt = runnable[0]
            for c in runnable:
                if c.prio > nxt.prio:
                    nxt = c
        self.schedule.append(nxt.id)
        return nxt

    def _runnable(self):
        return [c for c in self.clients if c.status == RUNNABLE]

    # ---- called by the holder ----
    def me(self):
        return self.by_ident.get(_thread.get_ident())

    def is_holder_thread(self):
        h = self.holder
        return self.active and h is not None and h.ident == _thread.get_ident()

    def point(self, tag):
        me = self.holder
        self.trace.append((me.id, tag))
        self.steps += 1
        if self.steps > self.step_cap:
            self._end('stepcap')
            self._park_forever(me)
        nxt = self._decide(self._runnable(), me)
        if nxt is not me:
            self._switch(me, nxt)

    def block(self, on, tag='block'):
        me = self.holder
        self.trace.append((me.id, tag))
        self.steps += 1
        me.status = BLOCKED
        me.blocked_on = on
        runnable = self._runnable()
        if not runnable:
            self.deadlock_info = [(c.id, repr(c.blocked_on)) for c in self.clients
                                  if c.status == BLOCKED]
            self._end('deadlock')
            self._park_forever(me)
        nxt = self._decide(runnable, None)
        self._switch(me, nxt)

    def wake(self, on):
        for c in self.clients:
            if c.status == BLOCKED and c.blocked_on == on:
                c.status = RUNNABLE
                c.blocked_on = None

    def _switch(self, me, nxt):
        self.switches += 1
        self.holder = nxt
        nxt.go.release()
        me.go.acquire()

    def _park_forever(self, me):
        me.go.acquire()
        raise Abandon()

    def _end(self, verdict):
        if self.verdict is None:
            self.verdict = verdict
            self.active = False
            self.main_lock.release()

    # ---- thread bodies ----
    def _body(self, c):
        c.ident = _thread.get_ident()
        self.by_ident[c.ident] = c
        c.go.acquire()
        if self.verdict is not None:
            return
        try:
            c.fn(c)
        except Abandon:
            return
        except BaseException as e:
            c.error = e
        c.status = DONE
        self.trace.append((c.id, 'done'))
        runnable = self._runnable()
        if runnable:
            nxt = self._decide(runnable, None)
            self.holder = nxt
            nxt.go.release()
        elif all(x.status in (DONE, IDLE) for x in self.clients):
            self._end('done')
        else:
            self.deadlock_info = [(x.id, repr(x.blocked_on)) for x in self.clients
                                  if x.status == BLOCKED]
            self._end('deadlock')
        if self.keep_threads:
            # the OS thread (and its thread state) stays until the run is torn down, so that
            # nothing of CPython's thread exit path runs concurrently with the next holder
            c.go.acquire()

    def run(self, before_start=None):
        """Start all Python clients, schedule until done/deadlock.  Returns verdict."""
        if self.strategy == 'pct':
            order = list(range(len(self.clients)))
            if self.replay is None:
                self.rng.shuffle(order)
            for p, i in enumerate(order):
                self.clients[i].prio = p
        self.active = True
        threads = []
        for c in self.clients:
            if c.foreign:
                continue
            t = threading.Thread(target=self._body, args=(c,), daemon=True)
            t.start()
            threads.append(t)
        # wait for all bodies to be parked on their go lock: they park
        # immediately; a decision is only taken once every ident is known
        import time
        while len(self.by_ident) < len([c for c in self.clients if not c.foreign]):
            time.sleep(0)
        if before_start:
            before_start()
        first = self._decide(self._runnable(), None)
        self.holder = first
        first.go.release()
        self.main_lock.acquire()
        self.active = False
        self.threads = threads
        if self.verdict == 'done' and not self.keep_threads:
            for t in threads:
                t.join()
        return self.verdict

    def release_threads(self):
        """keep_threads mode: let the parked, finished client threads exit (after a 'done' run)"""
        if self.verdict == 'done' and self.keep_threads:
            for c in self.clients:
                if not c.foreign and c.status == DONE:
                    c.go.release()
            for t in self.threads:
                t.join()

    def idle(self, tag='idle'):
        """the holder (a foreign client) has no command: it hands the baton over and parks"""
        me = self.holder
        self.trace.append((me.id, tag))
        self.steps += 1
        me.status = IDLE
        runnable = self._runnable()
        if not runnable:
            if all(x.status in (DONE, IDLE) for x in self.clients):
                self._end('done')
            else:
                self.deadlock_info = [(c.id, repr(c.blocked_on)) for c in self.clients
                                      if c.status == BLOCKED]
                self._end('deadlock')
            me.go.acquire()        # released at tear-down, with an EXIT command posted
            return
        nxt = self._decide(runnable, None)
        self._switch(me, nxt)

    # After a deadlock / step-cap verdict the parked client threads are left
    # parked (daemon threads): unwinding them would re-enter C code that is
    # spinning on the simulated lock.  Workers are forked per chunk and leave
    # through os._exit, so they never outlive the chunk.


# --------------------------------------------------------------------------
# SimLock: a lock whose blocking is a scheduler state, not an OS wait
# --------------------------------------------------------------------------

class SimLock(object):
    def __init__(self, sched_ref, name=None):
        self._sched_ref = sched_ref      # callable returning the active Sched or None
        self.held = False
        self.name = name
        self.contended = 0

    def acquire(self, blocking=True, timeout=-1):
        s = self._sched_ref()
        if s is None or not s.is_holder_thread():
            if self.held:
                if not blocking:
                    return False
                raise HarnessError('SimLock contended outside the simulation')
            self.held = True
            return True
        s.point('lk-try')
        while self.held:
            if not blocking:
                return False
            self.contended += 1
            s.block(self, 'lk-blocked')
        self.held = True
        s.point('lk-got')
        return True

    def release(self):
        if not self.held:
            raise RuntimeError('release unlocked lock')
        self.held = False
        s = self._sched_ref()
        if s is not None and s.is_holder_thread():
            s.wake(self)
            s.point('lk-rel')

    def locked(self):
        return self.held

    def __enter__(self):
        self.acquire()
        return self

    def __exit__(self, *a):
        self.release()

    def __repr__(self):
        return 'SimLock(%s)' % (self.name,)


# --------------------------------------------------------------------------
# Instruction-level pre-emption on selected code objects (PEP 669)
# --------------------------------------------------------------------------

class InstructionPoints(object):
    def __init__(self):
        self.mon = sys.monitoring
        self.codes = []
        self.sched = None
        self.claimed = False

    def claim(self):
        if not self.claimed:
            try:
                self.mon.use_tool_id(TOOL_ID, 'cffi-verif-sim')
            except ValueError:
                pass
            self.mon.register_callback(TOOL_ID, self.mon.events.INSTRUCTION, self._cb)
            self.claimed = True

    def _cb(self, code, offset):
        s = self.sched
        if s is not None and s.active and s.is_holder_thread():
            s.point('i%d' % offset)

    def enable(self, sched, codes):
        self.claim()
        self.sched = sched
        self.codes = list(codes)
        for co in self.codes:
            self.mon.set_local_events(TOOL_ID, co, self.mon.events.INSTRUCTION)

    def disable(self):
        for co in self.codes:
            self.mon.set_local_events(TOOL_ID, co, 0)
        self.codes = []
        self.sched = None


INSTR = InstructionPoints()


# --------------------------------------------------------------------------
# C-level lock hook (backend shim)
# --------------------------------------------------------------------------

class CLockHook(object):
    HOOKTYPE = ctypes.CFUNCTYPE(ctypes.c_int, ctypes.c_int, ctypes.c_void_p)

    def __init__(self, backend_file):
        self.lib = ctypes.PyDLL(backend_file)
        self.sched = None
        self.lock_ord = {}
        self._cb = self.HOOKTYPE(self._hook)
        self.var = ctypes.c_void_p.in_dll(self.lib, 'cffi_verif_lock_hook')
        self.lib.cffi_verif_set_client.argtypes = [ctypes.c_int]
        self.lib.cffi_verif_set_client.restype = None
        self.contended = 0

    def _ord(self, ptr):
        o = self.lock_ord.get(ptr)
        if o is None:
            o = self.lock_ord[ptr] = len(self.lock_ord)
        return o

    def _hook(self, kind, lock):
        s = self.sched
        if s is None or not s.active or not s.is_holder_thread():
            return 0
        key = ('clock', lock)
        if kind == 1:
            self.contended += 1
            s.block(key, 'c-blocked')
        elif kind == 2:
            s.wake(key)
            s.point('c-rel')
        else:
            s.point('c-acq')
        return 0

    def install(self, sched):
        self.sched = sched
        self.lock_ord = {}
        self.contended = 0
        self.var.value = ctypes.cast(self._cb, ctypes.c_void_p).value

    def uninstall(self):
        self.var.value = None
        self.sched = None

    def set_client(self, on):
        self.lib.cffi_verif_set_client(1 if on else 0)
