"""Engine F: a simulated file system that sits under cffi.recompiler's
module-level `open` and `os`, with crash / torn-write / short-write / I/O-error
injection at every I/O step.  Files opened for writing use CPython's real
TextIOWrapper(BufferedWriter(raw)) stack; only the raw "syscalls" are simulated.
"""
import io, os as _os, builtins, errno

ROOT = '/simfs'
TMPROOT = '/simfs-tmp'      # the system temporary directory: a different file system (rename across -> EXDEV)


class SimCrash(BaseException):
    """the simulated process died at this I/O step"""


class _File(object):
    __slots__ = ('data', 'mtime', 'ino')

    def __init__(self, data, mtime, ino):
        self.data = bytearray(data)
        self.mtime = mtime
        self.ino = ino


class SimFS(object):
    def __init__(self):
        self.files = {}
        self.dirs = set([ROOT, TMPROOT])
        self.cwd = None          # virtual current directory: relative paths are resolved against it
        self.tmp_counter = 0
        self.clock = 0
        self.next_ino = 1
        self.log = []            # (kind, mutating)
        self.crash_at = None     # step index
        self.torn = None         # None or fraction in (0,1): apply that part of the write, then die
        self.crashed = False
        self.pid = 4242
        self.chunks = None       # list of short-write sizes, cycled; None = accept everything
        self._chunk_i = 0
        self.bufsize = 8192
        self.errors = {}         # step index -> errno (probe configuration only)
        self.errors_fired = 0
        self.torn_fired = False

    # ---- helpers for the harness (not steps) ----
    def clone(self):
        f = SimFS()
        for p, x in self.files.items():
            n = _File(x.data, x.mtime, x.ino)
            f.files[p] = n
        f.dirs = set(self.dirs)
        f.clock = self.clock
        f.next_ino = self.next_ino
        f.pid = self.pid
        f.cwd = self.cwd
        f.tmp_counter = self.tmp_counter
        f.chunks = self.chunks
        f.bufsize = self.bufsize
        return f

    def put(self, path, data):
        self.clock += 1
        self.files[path] = _File(data, self.clock, self.next_ino)
        self.next_ino += 1
        d = _os.path.dirname(path)
        while d.startswith(ROOT) and d not in self.dirs:
            self.dirs.add(d)
            d = _os.path.dirname(d)

    def get(self, path):
        f = self.files.get(path)
        return None if f is None else bytes(f.data)

    def stat(self, path):
        f = self.files.get(path)
        return None if f is None else (f.ino, f.mtime, bytes(f.data))

    def nsteps(self):
        return len(self.log)

    def mutating_steps(self):
        return sum(1 for _, m in self.log if m)

    # ---- the step gate ----
    def step(self, kind, mutating):
        """returns True if the process dies *at* this step (before it takes effect)"""
        if self.crashed:
            raise SimCrash()
        k = len(self.log)
        self.log.append((kind, mutating))
        if self.crash_at is not None and k == self.crash_at:
            self.crashed = True
            return True
        e = self.errors.get(k)
        if e is not None:
            self.errors_fired += 1
            raise OSError(e, _os.strerror(e))
        return False

    def _tick(self, f):
        self.clock += 1
        f.mtime = self.clock

    # ---- "syscalls" ----
    def sys_open(self, path, mode):
        if 'r' in mode:
            if self.step('open-r', False):
                raise SimCrash()
            f = self.files.get(path)
            if f is None:
                raise FileNotFoundError(errno.ENOENT, 'No such file or directory', path)
            return f
        # write: create or truncate
        if self.step('open-w', True):
            raise SimCrash()
        d = _os.path.dirname(path)
        if d not in self.dirs:
            raise FileNotFoundError(errno.ENOENT, 'No such file or directory', path)
        f = self.files.get(path)
        if f is None:
            f = _File(b'', 0, self.next_ino)
            self.next_ino += 1
            self.files[path] = f
        else:
            del f.data[:]
        self._tick(f)
        return f

    def sys_write(self, f, b, pos=None):
        n = len(b)
        if self.chunks:
            c = self.chunks[self._chunk_i % len(self.chunks)]
            self._chunk_i += 1
            n = max(1, min(n, c))
        if self.step('write', True):
            if self.torn is not None and n > 1:
                k = max(1, min(n - 1, int(n * self.torn)))
                self._put(f, b[:k], pos)
                self._tick(f)
                self.torn_fired = True
            raise SimCrash()
        self._put(f, b[:n], pos)
        self._tick(f)
        return n

    @staticmethod
    def _put(f, data, pos):
        data = bytes(data)
        if pos is None or pos >= len(f.data):
            if pos is not None and pos > len(f.data):
                f.data += b'\0' * (pos - len(f.data))
            f.data += data
        else:
            f.data[pos:pos + len(data)] = data

    def sys_open_fd(self, path, flags, mode=0o666):
        """os.open(): returns the file record; honours O_CREAT / O_EXCL / O_TRUNC"""
        writing = bool(flags & (_os.O_WRONLY | _os.O_RDWR))
        if not writing:
            return self.sys_open(path, 'r')
        f = self.files.get(path)
        mutating = (f is None and bool(flags & _os.O_CREAT)) or (f is not None and bool(flags & _os.O_TRUNC))
        if self.step('open-w', mutating):
            raise SimCrash()
        if _os.path.dirname(path) not in self.dirs:
            raise FileNotFoundError(errno.ENOENT, 'No such file or directory', path)
        if f is None:
            if not (flags & _os.O_CREAT):
                raise FileNotFoundError(errno.ENOENT, 'No such file or directory', path)
            f = _File(b'', 0, self.next_ino)
            self.next_ino += 1
            self.files[path] = f
            self._tick(f)
        else:
            if (flags & _os.O_CREAT) and (flags & _os.O_EXCL):
                raise FileExistsError(errno.EEXIST, 'File exists', path)
            if flags & _os.O_TRUNC:
                del f.data[:]
                self._tick(f)
        return f

    def sys_rename(self, a, b):
        if device_of(a) != device_of(b):
            if self.step('rename', False):
                raise SimCrash()
            raise OSError(errno.EXDEV, 'Invalid cross-device link', a)
        if self.step('rename', True):
            raise SimCrash()
        f = self.files.get(a)
        if f is None:
            raise FileNotFoundError(errno.ENOENT, 'No such file or directory', a)
        if b in self.dirs:
            raise IsADirectoryError(errno.EISDIR, 'Is a directory', b)
        del self.files[a]
        self.files[b] = f          # atomic replace; inode and mtime travel with the file
        self.clock += 1

    def sys_unlink(self, a):
        if self.step('unlink', True):
            raise SimCrash()
        if a not in self.files:
            raise FileNotFoundError(errno.ENOENT, 'No such file or directory', a)
        del self.files[a]
        self.clock += 1

    def sys_stat(self, p):
        if self.step('stat', False):
            raise SimCrash()
        f = self.files.get(p)
        if f is None:
            if p in self.dirs:
                st = _Stat(_File(b'', 0, 0))
                st.st_mode = 0o040755
                return st
            raise FileNotFoundError(errno.ENOENT, 'No such file or directory', p)
        return _Stat(f)

    def sys_utime(self, p):
        if self.step('utime', True):
            raise SimCrash()
        f = self.files.get(p)
        if f is None:
            raise FileNotFoundError(errno.ENOENT, 'No such file or directory', p)
        self._tick(f)

    def sys_makedirs(self, d):
        if self.step('makedirs', d not in self.dirs):
            raise SimCrash()
        if d in self.dirs:
            raise FileExistsError(errno.EEXIST, 'File exists', d)
        while d.startswith(ROOT) and d not in self.dirs:
            self.dirs.add(d)
            d = _os.path.dirname(d)


class SimRawFile(io.RawIOBase):
    def __init__(self, fs, f, mode):
        self.fs = fs
        self.f = f
        self.mode = mode
        self.pos = 0

    def readable(self):
        return 'r' in self.mode

    def fileno(self):
        return 100000 + self.f.ino       # a fake descriptor, recognised by FakeOS.fsync

    def writable(self):
        return 'w' in self.mode

    def readinto(self, b):
        if self.fs.step('read', False):
            raise SimCrash()
        data = self.f.data[self.pos:self.pos + len(b)]
        b[:len(data)] = data
        self.pos += len(data)
        return len(data)

    def write(self, b):
        n = self.fs.sys_write(self.f, b, self.pos)
        self.pos += n
        return n

    def seekable(self):
        return False

    def close(self):
        if not self.closed:
            super().close()
            if not self.fs.crashed:
                if self.fs.step('close', False):
                    raise SimCrash()


def is_virtual(path):
    try:
        p = _os.fspath(path)
    except TypeError:
        return False
    return isinstance(p, str) and (p == ROOT or p.startswith(ROOT + '/') or p == TMPROOT or p.startswith(TMPROOT + '/'))


def device_of(path):
    return 2 if (path == TMPROOT or path.startswith(TMPROOT + '/')) else 1


class Seam(object):
    """Bind to cffi.recompiler.open / cffi.recompiler.os"""

    def __init__(self):
        self.fs = None

    def resolve(self, path):
        """relative paths live in the virtual current directory while a SimFS with one is active"""
        fs = self.fs
        if fs is None or fs.cwd is None:
            return path
        try:
            p = _os.fspath(path)
        except TypeError:
            return path
        if isinstance(p, str) and not p.startswith('/'):
            return _os.path.normpath(_os.path.join(fs.cwd, p))
        return path

    def open(self, path, mode='r', *args, **kw):
        path = self.resolve(path)
        if self.fs is None or not is_virtual(path):
            return builtins.open(path, mode, *args, **kw)
        if 'b' in mode or '+' in mode or 'a' in mode:
            raise NotImplementedError('SimFS: mode %r' % mode)
        fs = self.fs
        f = fs.sys_open(path, mode)
        raw = SimRawFile(fs, f, mode)
        # same newline handling as the built-in open(): 4th positional argument or keyword
        newline = kw.get('newline', args[3] if len(args) > 3 else None)
        if 'r' in mode:
            return io.TextIOWrapper(io.BufferedReader(raw, fs.bufsize), encoding='utf-8', newline=newline)
        return io.TextIOWrapper(io.BufferedWriter(raw, fs.bufsize), encoding='utf-8', newline=newline)


class _Stat(object):
    def __init__(self, f):
        self.st_size = len(f.data)
        self.st_mtime = float(f.mtime)
        self.st_mtime_ns = int(f.mtime) * 10 ** 9
        self.st_ino = f.ino
        self.st_mode = 0o100644


class FakePath(object):
    """os.path for virtual paths; everything else is the real os.path"""

    def __init__(self, seam):
        self._seam = seam

    def __getattr__(self, name):
        return getattr(_os.path, name)

    def _fs(self, p):
        fs = self._seam.fs
        return fs if (fs is not None and is_virtual(p)) else None

    def exists(self, p):
        p = self._seam.resolve(p)
        fs = self._fs(p)
        if fs is None:
            return _os.path.exists(p)
        fs.step('stat', False)
        return p in fs.files or p in fs.dirs

    lexists = exists

    def abspath(self, p):
        q = self._seam.resolve(p)
        return _os.path.normpath(q) if is_virtual(q) else _os.path.abspath(p)

    def realpath(self, p, **kw):
        q = self._seam.resolve(p)
        return _os.path.normpath(q) if is_virtual(q) else _os.path.realpath(p, **kw)

    def isfile(self, p):
        p = self._seam.resolve(p)
        fs = self._fs(p)
        if fs is None:
            return _os.path.isfile(p)
        fs.step('stat', False)
        return p in fs.files

    def isdir(self, p):
        p = self._seam.resolve(p)
        fs = self._fs(p)
        if fs is None:
            return _os.path.isdir(p)
        fs.step('stat', False)
        return p in fs.dirs

    def getsize(self, p):
        p = self._seam.resolve(p)
        fs = self._fs(p)
        if fs is None:
            return _os.path.getsize(p)
        return fs.sys_stat(p).st_size

    def getmtime(self, p):
        p = self._seam.resolve(p)
        fs = self._fs(p)
        if fs is None:
            return _os.path.getmtime(p)
        return fs.sys_stat(p).st_mtime


class FakeOS(object):
    def __init__(self, seam):
        self._seam = seam
        self.path = FakePath(seam)

    def __getattr__(self, name):
        return getattr(_os, name)

    def stat(self, p, *a, **kw):
        p = self._seam.resolve(p)
        fs = self._seam.fs
        if fs is not None and is_virtual(p):
            return fs.sys_stat(p)
        return _os.stat(p, *a, **kw)

    lstat = stat

    def utime(self, p, *a, **kw):
        p = self._seam.resolve(p)
        fs = self._seam.fs
        if fs is not None and is_virtual(p):
            return fs.sys_utime(p)
        return _os.utime(p, *a, **kw)

    def fsync(self, fd):
        fs = self._seam.fs
        if fs is not None and isinstance(fd, int) and fd >= 100000:
            if fs.step('fsync', False):
                raise SimCrash()
            return None
        return _os.fsync(fd)

    fdatasync = fsync

    # os.open / os.fdopen / os.close / os.write on virtual paths
    def open(self, path, flags, mode=0o777, *a, **kw):
        path = self._seam.resolve(path)
        fs = self._seam.fs
        if fs is not None and is_virtual(path):
            f = fs.sys_open_fd(path, flags, mode)
            self._fds = getattr(self, '_fds', {})
            fd = 200000 + len(self._fds)
            pos = len(f.data) if (flags & _os.O_APPEND) else 0
            self._fds[fd] = [fs, f, pos, 'w' if flags & (_os.O_WRONLY | _os.O_RDWR) else 'r']
            return fd
        return _os.open(path, flags, mode, *a, **kw)

    def fdopen(self, fd, mode='r', *a, **kw):
        ent = getattr(self, '_fds', {}).get(fd)
        if ent is None:
            return _os.fdopen(fd, mode, *a, **kw)
        fs, f, pos, m = ent
        raw = SimRawFile(fs, f, 'w' if ('w' in mode or 'a' in mode) else 'r')
        raw.pos = pos
        if 'b' in mode:
            return io.BufferedWriter(raw, fs.bufsize) if raw.writable() else io.BufferedReader(raw, fs.bufsize)
        if raw.writable():
            return io.TextIOWrapper(io.BufferedWriter(raw, fs.bufsize), encoding='utf-8')
        return io.TextIOWrapper(io.BufferedReader(raw, fs.bufsize), encoding='utf-8')

    def write(self, fd, data):
        ent = getattr(self, '_fds', {}).get(fd)
        if ent is None:
            return _os.write(fd, data)
        n = ent[0].sys_write(ent[1], data, ent[2])
        ent[2] += n
        return n

    def close(self, fd):
        ent = getattr(self, '_fds', {}).pop(fd, None) if isinstance(fd, int) else None
        if ent is None:
            return _os.close(fd)
        if not ent[0].crashed and ent[0].step('close', False):
            raise SimCrash()

    def listdir(self, d='.'):
        d = self._seam.resolve(d)
        fs = self._seam.fs
        if fs is not None and is_virtual(d):
            fs.step('listdir', False)
            pre = d.rstrip('/') + '/'
            names = set()
            for p in list(fs.files) + list(fs.dirs):
                if p.startswith(pre):
                    names.add(p[len(pre):].split('/')[0])
            return sorted(names)
        return _os.listdir(d)

    def getcwd(self):
        fs = self._seam.fs
        return fs.cwd if (fs is not None and fs.cwd is not None) else _os.getcwd()

    def getpid(self):
        fs = self._seam.fs
        return fs.pid if fs is not None else _os.getpid()

    def rename(self, a, b):
        a, b = self._seam.resolve(a), self._seam.resolve(b)
        fs = self._seam.fs
        if fs is not None and (is_virtual(a) or is_virtual(b)):
            return fs.sys_rename(a, b)
        return _os.rename(a, b)

    replace = rename

    def unlink(self, a):
        a = self._seam.resolve(a)
        fs = self._seam.fs
        if fs is not None and is_virtual(a):
            return fs.sys_unlink(a)
        return _os.unlink(a)

    remove = unlink

    def makedirs(self, d, *args, **kw):
        d = self._seam.resolve(d)
        fs = self._seam.fs
        if fs is not None and is_virtual(d):
            if kw.get('exist_ok') and d in fs.dirs:
                return
            return fs.sys_makedirs(d)
        return _os.makedirs(d, *args, **kw)

    def mkdir(self, d, *args, **kw):
        return self.makedirs(d)


class _NamedTemp(object):
    def __init__(self, f, name, fakeos, delete):
        self._f, self.name, self._os, self._delete = f, name, fakeos, delete

    def __getattr__(self, n):
        return getattr(self._f, n)

    def __enter__(self):
        return self

    def __exit__(self, *a):
        self.close()

    def close(self):
        self._f.close()
        if self._delete:
            try:
                self._os.unlink(self.name)
            except OSError:
                pass


class FakeTempfile(object):
    """`tempfile` for code under test that has been changed to use it: the system temporary directory
    is TMPROOT, a different file system than ROOT; names are deterministic"""

    def __init__(self, seam, fakeos):
        self._seam, self._os = seam, fakeos

    def __getattr__(self, name):
        import tempfile
        return getattr(tempfile, name)

    def gettempdir(self):
        import tempfile
        return TMPROOT if self._seam.fs is not None else tempfile.gettempdir()

    def _dir(self, dir):
        if dir is None:
            return TMPROOT
        d = self._seam.resolve(dir if dir != '' else '.')
        return d

    def mkstemp(self, suffix=None, prefix=None, dir=None, text=False):
        import tempfile
        fs = self._seam.fs
        d = self._dir(dir) if fs is not None else dir
        if fs is None or not is_virtual(d):
            return tempfile.mkstemp(suffix, prefix, dir, text)
        fs.tmp_counter += 1
        path = _os.path.join(d, '%s%s%04d%s' % (prefix if prefix is not None else 'tmp', 'v', fs.tmp_counter, suffix or ''))
        fd = self._os.open(path, _os.O_RDWR | _os.O_CREAT | _os.O_EXCL, 0o600)
        return fd, path

    def mkdtemp(self, suffix=None, prefix=None, dir=None):
        import tempfile
        fs = self._seam.fs
        d = self._dir(dir) if fs is not None else dir
        if fs is None or not is_virtual(d):
            return tempfile.mkdtemp(suffix, prefix, dir)
        fs.tmp_counter += 1
        path = _os.path.join(d, '%s%s%04d%s' % (prefix if prefix is not None else 'tmp', 'v', fs.tmp_counter, suffix or ''))
        fs.sys_makedirs(path)
        return path

    def NamedTemporaryFile(self, mode='w+b', buffering=-1, encoding=None, newline=None, suffix=None, prefix=None,
                           dir=None, delete=True, **kw):
        import tempfile
        fs = self._seam.fs
        d = self._dir(dir) if fs is not None else dir
        if fs is None or not is_virtual(d):
            return tempfile.NamedTemporaryFile(mode, buffering, encoding, newline, suffix, prefix, dir, delete, **kw)
        fd, path = self.mkstemp(suffix, prefix, dir)
        return _NamedTemp(self._os.fdopen(fd, mode.replace('+', '')), path, self._os, delete)


def install(recompiler_module):
    """returns the Seam; recompiler's `open` and `os` (and `tempfile`, should the code under test have
    started to use it) now go through it"""
    seam = Seam()
    recompiler_module.open = seam.open
    recompiler_module.os = FakeOS(seam)
    if hasattr(recompiler_module, 'tempfile'):
        recompiler_module.tempfile = FakeTempfile(seam, recompiler_module.os)
    return seam
