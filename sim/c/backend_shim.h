/* Pass-through interposition header, force-included (-include) in front of
   /repo/src/c/_cffi_backend.c when building the PRIVATE simulation build of
   the backend.  Nothing in /repo is edited.  With all control variables at
   their defaults every wrapper is exactly the original call.

   Exported control surface (default visibility, read/written with ctypes):

     int (*cffi_verif_lock_hook)(int kind, void *lock)   kind 1 = BLOCKED, 2 = RELEASED, 3 = ACQUIRED
     void cffi_verif_set_client(int on)     mark the calling thread as a simulated client
     long cffi_verif_mmap_calls             number of mmap() calls made by the backend
     long cffi_verif_mmap_fail_at           fail the call whose ordinal equals this (-1 never)
     long cffi_verif_mmap_fail_n            ... and the next n-1 calls
     dl log: cffi_verif_dl_n, cffi_verif_dl_log[]   (kind, handle, symbol) per dlsym/dlclose/dlopen
     void cffi_verif_note_open(void *h)   the harness opened handle h itself (open counts per handle)
     fault: cffi_verif_dlclose_fail = n   the next n dlclose() calls close the handle but return -1
     void cffi_verif_arm_gate(sem_t *arrived, sem_t *gate)   one-shot gate before this thread's next GIL acquisition
*/
#ifndef CFFI_VERIF_BACKEND_SHIM_H
#define CFFI_VERIF_BACKEND_SHIM_H

#define PY_SSIZE_T_CLEAN            /* this is the first inclusion of Python.h */
#include <Python.h>
#include <pythread.h>
#include <sys/mman.h>
#include <dlfcn.h>
#include <string.h>
#include <errno.h>

#define VERIF_BLOCKED  1
#define VERIF_RELEASED 2
#define VERIF_ACQUIRED 3

int (*cffi_verif_lock_hook)(int kind, void *lock) = NULL;
static __thread int verif_is_client = 0;
void cffi_verif_set_client(int on) { verif_is_client = on; }

static int verif_acquire_lock(PyThread_type_lock l, int wait)
{
    if (cffi_verif_lock_hook == NULL || !verif_is_client || !wait)
        return PyThread_acquire_lock(l, wait);
    /* simulated client: never block the OS thread; park in the scheduler */
    while (!PyThread_acquire_lock(l, NOWAIT_LOCK))
        cffi_verif_lock_hook(VERIF_BLOCKED, (void *)l);
    cffi_verif_lock_hook(VERIF_ACQUIRED, (void *)l);   /* a switch point, lock held */
    return 1;
}

static void verif_release_lock(PyThread_type_lock l)
{
    PyThread_release_lock(l);
    if (cffi_verif_lock_hook != NULL && verif_is_client) {
        /* may be reached with a Python exception pending (ffi_init_once when
           the initializer raised): keep it intact around the hook */
        if (PyGILState_Check()) {
            PyObject *t, *v, *tb;
            PyErr_Fetch(&t, &v, &tb);
            cffi_verif_lock_hook(VERIF_RELEASED, (void *)l);
            PyErr_Restore(t, v, tb);
        }
        else
            cffi_verif_lock_hook(VERIF_RELEASED, (void *)l);
    }
}

/* ---- mmap fault seam (malloc_closure.h: more_core) ---- */
long cffi_verif_mmap_calls = 0;
long cffi_verif_mmap_fail_at = -1;
long cffi_verif_mmap_fail_n = 1;
long cffi_verif_mmap_failed = 0;

static void *verif_mmap(void *addr, size_t len, int prot, int flags, int fd, off_t off)
{
    long n = cffi_verif_mmap_calls++;
    if (cffi_verif_mmap_fail_at >= 0 && n >= cffi_verif_mmap_fail_at &&
            n < cffi_verif_mmap_fail_at + cffi_verif_mmap_fail_n) {
        cffi_verif_mmap_failed++;
        errno = ENOMEM;
        return MAP_FAILED;
    }
    return mmap(addr, len, prot, flags, fd, off);
}

/* ---- dlopen/dlsym/dlclose observation seam ---- */
#define VERIF_DL_MAX 4096
struct verif_dl_ev { int kind; void *handle; char name[40]; };
struct verif_dl_ev cffi_verif_dl_log[VERIF_DL_MAX];
long cffi_verif_dl_n = 0;

static void verif_dl_record(int kind, void *h, const char *s)
{
    if (cffi_verif_dl_n < VERIF_DL_MAX) {
        struct verif_dl_ev *e = &cffi_verif_dl_log[cffi_verif_dl_n];
        e->kind = kind; e->handle = h;
        e->name[0] = 0;
        if (s) { strncpy(e->name, s, sizeof(e->name) - 1); e->name[sizeof(e->name)-1] = 0; }
    }
    cffi_verif_dl_n++;
}
/* open counts per handle, as far as the simulation knows them (opens made by the backend, and opens the
   harness announces with cffi_verif_note_open).  A handle whose count has dropped to zero is never given to
   the real dlsym()/dlclose() again: the call is logged (the check reports it) and refused, so that a broken
   tree shows up as a reproducible violation instead of undefined behaviour inside the dynamic loader. */
#define VERIF_DL_HANDLES 256
static struct { void *h; long n; } verif_dl_tab[VERIF_DL_HANDLES];
static int verif_dl_ntab = 0;
static long *verif_dl_count(void *h, int create)
{
    int i;
    for (i = 0; i < verif_dl_ntab; i++)
        if (verif_dl_tab[i].h == h) return &verif_dl_tab[i].n;
    if (!create || verif_dl_ntab >= VERIF_DL_HANDLES) return NULL;
    verif_dl_tab[verif_dl_ntab].h = h; verif_dl_tab[verif_dl_ntab].n = 0;
    return &verif_dl_tab[verif_dl_ntab++].n;
}
void cffi_verif_note_open(void *h)
{
    long *c = (h != NULL) ? verif_dl_count(h, 1) : NULL;
    if (c) (*c)++;
}
static void *verif_dlopen(const char *f, int flags)
{
    void *h = dlopen(f, flags);
    verif_dl_record(1, h, f);
    cffi_verif_note_open(h);
    return h;
}
static int verif_dlclose_failed_msg = 0;
static void *verif_dlsym(void *h, const char *s)
{
    long *c = (h != NULL) ? verif_dl_count(h, 0) : NULL;
    verif_dl_record(2, h, s);
    if (c != NULL && *c <= 0) {
        verif_dlclose_failed_msg = 2;
        return NULL;
    }
    return dlsym(h, s);
}
/* fault: the next cffi_verif_dlclose_fail calls of dlclose() do close the handle but report a failure
   (as the dynamic loader does when part of the teardown went wrong) */
long cffi_verif_dlclose_fail = 0;
static int verif_dlclose(void *h)
{
    int r;
    long *c = (h != NULL) ? verif_dl_count(h, 0) : NULL;
    verif_dl_record(3, h, NULL);
    if (c != NULL) {
        if (*c <= 0) {
            verif_dlclose_failed_msg = 2;
            return -1;
        }
        (*c)--;
    }
    r = dlclose(h);
    if (cffi_verif_dlclose_fail > 0) {
        cffi_verif_dlclose_fail--;
        verif_dlclose_failed_msg = 1;
        return -1;
    }
    return r;
}

/* ---- gate at the acquisition of the GIL (used by callbacks entered from foreign threads) ----
   A thread that armed the gate announces its arrival and waits right before it takes the GIL
   for the first time afterwards: everything a callback entry point does BEFORE it holds the
   GIL has then happened, nothing after it has.  One-shot and thread-local; inert unless armed. */
#include <semaphore.h>
static __thread sem_t *verif_gate_arrived = NULL, *verif_gate_wait = NULL;
void cffi_verif_arm_gate(void *arrived, void *gate)
{
    verif_gate_arrived = (sem_t *)arrived;
    verif_gate_wait = (sem_t *)gate;
}
static void verif_gate(void)
{
    if (verif_gate_wait != NULL) {
        sem_t *g = verif_gate_wait;
        verif_gate_wait = NULL;
        sem_post(verif_gate_arrived);
        sem_wait(g);
    }
}
static void verif_PyEval_RestoreThread(PyThreadState *ts) { verif_gate(); PyEval_RestoreThread(ts); }
static PyGILState_STATE verif_PyGILState_Ensure(void) { verif_gate(); return PyGILState_Ensure(); }
#define PyEval_RestoreThread verif_PyEval_RestoreThread
#define PyGILState_Ensure    verif_PyGILState_Ensure

#define PyThread_acquire_lock verif_acquire_lock
#define PyThread_release_lock verif_release_lock
#define mmap    verif_mmap
#define dlopen  verif_dlopen
#define dlsym   verif_dlsym
static char *verif_dlerror(void)
{
    if (verif_dlclose_failed_msg) {
        int k = verif_dlclose_failed_msg;
        verif_dlclose_failed_msg = 0;
        return k == 2 ? "refused by the simulation: this handle has been closed"
                      : "injected failure: cannot finish unloading";
    }
    return dlerror();
}
#define dlclose verif_dlclose
#define dlerror verif_dlerror

#endif
