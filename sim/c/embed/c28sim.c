/* Engine C: seeded coroutine scheduler + stubbed CPython + driver for the REAL
   generated embedding start-up code (two libraries, libA.c / libB.c, produced
   by the working tree's recompiler and compiled with -include seams.h).

   One case per line on stdin; each case runs in a forked child (the code under
   test keeps its state in static variables that cannot be reset); one JSON
   line per case on stdout.  See DESIGN.md 2.5 / 3.2.                          */
#define _GNU_SOURCE
#define PY_SSIZE_T_CLEAN
#include <Python.h>
#include <ucontext.h>
#include <pthread.h>
#include <signal.h>
#include <stdarg.h>
#include <stdint.h>
#include <stdio.h>
#include <stdlib.h>
#include <string.h>
#include <errno.h>
#include <unistd.h>
#include <sys/mman.h>
#include <sys/wait.h>

/* ---------- the code under test (real, generated) ---------- */
typedef struct { long a; long b; } pair_t;
extern int    f(int, int);        /* libA: extern "Python" via embedding_api */
extern pair_t g(int);             /* libA */
extern int    A_start(void);      /* libA: user C function calling cffi_start_python() */
extern long   h(long);            /* libB */
extern int    B_start(void);      /* libB */

struct _cffi_externpy_s { const char *name; size_t size_of_result; void *reserved1, *reserved2; };

/* ---------- limits ---------- */
#define MAXCO     4
#define MAXCALLS  8
#define MAXSTEPS  12
#define MAXDEPTH  6
#define STACKSZ   (256 * 1024)
#define STEPCAP   200000
#define MAXSCHED  20000
#define NEXPORTS  64

enum { ST_RUN, ST_GIL, ST_MUTEX, ST_SPIN, ST_DONE };
enum { LS_NONE, LS_RUNNING, LS_OK, LS_FAILED };
enum { C_AF, C_AG, C_BH, C_AS, C_BS };
static const char *callname[] = { "A.f", "A.g", "B.h", "A_start", "B_start" };
static const int   calllib[]  = { 0, 0, 1, 0, 1 };
enum { F_NONE, F_IMP, F_MOD, F_CMP };

typedef struct { int kind; long a1, a2; } call_t;
typedef struct { char op; call_t call; int fn; } istep_t;   /* op: y d c r */

typedef struct {
    ucontext_t ctx;
    char *stack;
    int state;
    void *blocked_on;
    long parked_epoch;
    int spin_line; long spin_epoch;
    int err;                       /* CPython error indicator of this thread */
    int saved_errno;
    int ncalls; call_t calls[MAXCALLS];
    int depth;
    int libstack[MAXDEPTH];
    int entered[MAXDEPTH];         /* did call at this depth enter cffi_call_python */
    int want_errno[MAXDEPTH];      /* errno of the C caller right before the call at this depth */
    char written[MAXDEPTH][16];    /* what the stand-in wrote as result */
    int prio;
    int in_pyinit;
} co_t;

static co_t co[MAXCO];
static char *stacks[MAXCO];
static int nco, cur = -1;
static ucontext_t main_ctx;
static ucontext_t *top_p;      /* lives on main()'s stack: survives the data-segment restore */

/* world */
static int py_initialized, py_initializing, py_init_count, py_initializer = -1;
static int gil_owner = -1;
static struct { int state, init_thread, evalcount, modinit, fault, failed;
                int nsteps; istep_t steps[MAXSTEPS]; } lib[2];
static int registered[3];
static int fn_yields;
static long change_epoch;
static long steps, switches;
static uint64_t digest = 1469598103934665603ULL;

/* PRNG / schedule */
static uint64_t rng_s;
static int strat, stick_pct, pct_n, est_len;
static int pct_points[8];
static int replay_n = -1, replay_pos; static unsigned char replay[MAXSCHED];
static unsigned char *sched_rec; static int sched_n;
static long idx; static int want_trace;

/* probes */
enum { P_RACE_PYINIT, P_PARKED_MUTEX_INIT_FAILS, P_RECURSIVE_SAME_LIB, P_CROSS_LIB_DURING_INIT,
       P_CROSS_LIB_RACED, P_LAZY_MUTEX_RACED, P_SPIN_OTHER_LIB, P_SPIN_PARKED, P_GIL_CONTENDED,
       P_MUTEX_CONTENDED, P_CALL_NOT_REGISTERED, P_FAILED_CALL_ZEROED, P_START_RECURSIVE,
       P_MUTEX_REINIT, P_SLOT_NOT_NULL_AT_END, P_PREINIT, NPROBES };
static const char *probename[] = { "race_to_Py_InitializeEx", "parked_on_mutex_while_init_fails",
    "recursive_same_lib_call_during_init", "cross_lib_call_during_init",
    "cross_lib_call_raced_by_other_thread", "lazy_mutex_init_raced", "spin_slot_held_by_other_lib",
    "spinner_parked", "gil_contended", "startup_mutex_contended", "call_before_def_extern",
    "call_after_failed_init_zeroed", "start_python_recursive", "mutex_reinitialised",
    "capsule_slot_not_null_at_end", "python_already_initialized" };
static long probes[NPROBES];
enum { U_CALL_NOT_ENTERED, U_RESULT_MISMATCH, U_START_RET, U_ENTRY_ERRNO, NUNSPEC };
static const char *unspecname[] = { "call_returned_without_entering_python_though_init_ok",
    "result_differs_from_python_value", "cffi_start_python_return_value_unexpected",
    /* not a clause of C28: read by the C22 check (errno of the C caller must reach cffi_call_python) */
    "entry_errno_differs_from_callers" };
static long unspec[NUNSPEC];
enum { FK_INIT_RAISES, FK_IMPORT_FAILS, FK_MODINIT_FAILS, FK_COMPILE_FAILS, FK_NEVER_REGISTERED,
       FK_STALL_PCT, FK_RECURSIVE_CALL, NFK };
static const char *fkname[] = { "init_code_raises", "import_backend_fails", "module_init_fails",
    "compile_fails", "function_never_registered", "thread_stall_pct", "call_from_init_code" };
static long fk[NFK];

/* shared with the parent for post-mortem */
static struct shared_s { char last[160]; int sched_n; unsigned char sched[MAXSCHED]; } *shared;

/* trace */
#define TRACEMAX 400
static char tracebuf[TRACEMAX][28]; static int trace_n;

/* ---------------------------------------------------------------- */
static uint64_t rnd(void)
{
    uint64_t z = (rng_s += 0x9E3779B97F4A7C15ULL);
    z = (z ^ (z >> 30)) * 0xBF58476D1CE4E5B9ULL;
    z = (z ^ (z >> 27)) * 0x94D049BB133111EBULL;
    return z ^ (z >> 31);
}

static void json_str(char *dst, size_t n, const char *s)
{
    size_t j = 0;
    for (; *s && j + 2 < n; s++) {
        if (*s == '"' || *s == '\\') { dst[j++] = '\\'; dst[j++] = *s; }
        else if ((unsigned char)*s < 32) dst[j++] = ' ';
        else dst[j++] = *s;
    }
    dst[j] = 0;
}

static void finish(const char *verdict, const char *clause, const char *detail)
{
    static char buf[65536]; char esc[1024]; int n = 0, i;
    json_str(esc, sizeof esc, detail ? detail : "");
    n += snprintf(buf + n, sizeof buf - n, "{\"idx\":%ld,\"verdict\":\"%s\",\"clause\":\"%s\",\"detail\":\"%s\","
                  "\"steps\":%ld,\"switches\":%ld,\"digest\":\"%016llx\",\"probes\":{",
                  idx, verdict, clause ? clause : "", esc, steps, switches, (unsigned long long)digest);
    for (i = 0; i < NPROBES; i++)
        n += snprintf(buf + n, sizeof buf - n, "%s\"%s\":%ld", i ? "," : "", probename[i], probes[i]);
    n += snprintf(buf + n, sizeof buf - n, "},\"unspec\":{");
    for (i = 0; i < NUNSPEC; i++)
        n += snprintf(buf + n, sizeof buf - n, "%s\"%s\":%ld", i ? "," : "", unspecname[i], unspec[i]);
    n += snprintf(buf + n, sizeof buf - n, "},\"faults\":{");
    for (i = 0; i < NFK; i++)
        n += snprintf(buf + n, sizeof buf - n, "%s\"%s\":%ld", i ? "," : "", fkname[i], fk[i]);
    n += snprintf(buf + n, sizeof buf - n, "},\"schedule\":\"");
    for (i = 0; i < sched_n && n < (int)sizeof buf - 2000; i++)
        buf[n++] = '0' + sched_rec[i];
    n += snprintf(buf + n, sizeof buf - n, "\"");
    if (want_trace) {
        n += snprintf(buf + n, sizeof buf - n, ",\"trace\":[");
        for (i = 0; i < trace_n && i < TRACEMAX; i++)
            n += snprintf(buf + n, sizeof buf - n, "%s\"%s\"", i ? "," : "", tracebuf[i]);
        n += snprintf(buf + n, sizeof buf - n, "]");
    }
    n += snprintf(buf + n, sizeof buf - n, "}\n");
    { ssize_t w = write(1, buf, n); (void)w; }
    alarm(0);
    setcontext(top_p);
    _exit(4);
}

static void violate(const char *clause, const char *fmt, ...)
{
    char d[700]; va_list ap;
    va_start(ap, fmt); vsnprintf(d, sizeof d, fmt, ap); va_end(ap);
    finish("violation", clause, d);
}

static void harness(const char *fmt, ...)
{
    char d[700]; va_list ap;
    va_start(ap, fmt); vsnprintf(d, sizeof d, fmt, ap); va_end(ap);
    finish("harness", "", d);
}

static void event(const char *kind, long site)
{
    const char *p;
    digest = (digest ^ (uint64_t)(cur + 1)) * 1099511628211ULL;
    for (p = kind; *p; p++) digest = (digest ^ (unsigned char)*p) * 1099511628211ULL;
    digest = (digest ^ (uint64_t)site) * 1099511628211ULL;
    if (trace_n < TRACEMAX)
        snprintf(tracebuf[trace_n], sizeof tracebuf[0], "%d:%s@%ld", cur, kind, site);
    trace_n++;
    if (shared) snprintf(shared->last, sizeof shared->last, "T%d %s@%ld step %ld", cur, kind, site, steps);
}

static int runnable(int i)
{
    if (co[i].state == ST_RUN) return 1;
    if (co[i].state == ST_SPIN && co[i].parked_epoch != change_epoch) return 1;
    return 0;
}

static void describe_states(char *d, size_t n)
{
    int i, k = 0;
    for (i = 0; i < nco; i++) {
        const char *s = co[i].state == ST_RUN ? "runnable" : co[i].state == ST_GIL ? "waiting for the GIL" :
            co[i].state == ST_MUTEX ? "waiting for the start-up mutex" :
            co[i].state == ST_SPIN ? "spinning on a CAS word that nobody will change" : "done";
        k += snprintf(d + k, n - k, "T%d %s (lib ctx %d, depth %d); ", i, s,
                      co[i].depth ? co[i].libstack[co[i].depth - 1] : -1, co[i].depth);
    }
    snprintf(d + k, n - k, "GIL owner T%d", gil_owner);
}

static int decide(int me_runnable)
{
    int cand[MAXCO], n = 0, i, pick;
    for (i = 0; i < nco; i++) if (runnable(i)) cand[n++] = i;
    if (n == 0) return -1;
    if (n == 1) return cand[0];
    if (replay_n >= 0) {
        pick = -1;
        if (replay_pos < replay_n) {
            int want = replay[replay_pos++];
            for (i = 0; i < n; i++) if (cand[i] == want) pick = want;
        }
        if (pick < 0) {
            pick = cand[0];
            if (me_runnable) for (i = 0; i < n; i++) if (cand[i] == cur) pick = cur;
        }
    }
    else if (strat == 0) pick = cand[rnd() % n];
    else if (strat == 1) {
        int stay = 0;
        if (me_runnable) for (i = 0; i < n; i++) if (cand[i] == cur) stay = 1;
        if (stay && (int)(rnd() % 100) < stick_pct) pick = cur;
        else pick = cand[rnd() % n];
    }
    else {
        for (i = 0; i < pct_n; i++)
            if (pct_points[i] >= 0 && pct_points[i] <= steps) {
                int j, lo = co[0].prio;
                for (j = 1; j < nco; j++) if (co[j].prio < lo) lo = co[j].prio;
                if (cur >= 0) co[cur].prio = lo - 1;
                pct_points[i] = -1;
            }
        pick = cand[0];
        for (i = 1; i < n; i++) if (co[cand[i]].prio > co[pick].prio) pick = cand[i];
    }
    if (sched_n < MAXSCHED) { sched_rec[sched_n++] = (unsigned char)pick; shared->sched_n = sched_n; }
    return pick;
}

static void switch_to(int nxt)
{
    int me = cur;
    if (nxt == me) return;
    switches++;
    if (me >= 0) co[me].saved_errno = errno;
    cur = nxt;
    if (co[nxt].state == ST_SPIN) co[nxt].state = ST_RUN;
    if (me >= 0) swapcontext(&co[me].ctx, &co[nxt].ctx);
    else setcontext(&co[nxt].ctx);
    errno = co[cur].saved_errno;
}

static void deadlock(void)
{
    char d[600];
    describe_states(d, sizeof d);
    violate("C28.4", "deadlock: no thread can make progress and some call has not returned: %s", d);
}

/* a plain switch point: the current coroutine stays runnable */
static void point(const char *kind, long site, int changes)
{
    int nxt;
    event(kind, site);
    if (++steps > STEPCAP) harness("step cap reached");
    if (changes) change_epoch++;
    nxt = decide(1);
    switch_to(nxt);
}

/* the current coroutine cannot continue until something changes */
static void park(int state, void *on, const char *kind, long site)
{
    int nxt;
    event(kind, site);
    if (++steps > STEPCAP) harness("step cap reached");
    co[cur].state = state;
    co[cur].blocked_on = on;
    co[cur].parked_epoch = change_epoch;
    nxt = decide(0);
    if (nxt < 0) deadlock();
    switch_to(nxt);
}

static void wake(int state, void *on)
{
    int i;
    for (i = 0; i < nco; i++)
        if (co[i].state == state && co[i].blocked_on == on) { co[i].state = ST_RUN; co[i].blocked_on = NULL; }
}

static int curlib(void) { return co[cur].depth ? co[cur].libstack[co[cur].depth - 1] : -1; }

/* ---------------------------------------------------------------- */
/* seams called from the generated code                              */
/* ---------------------------------------------------------------- */
PyTypeObject PyCapsule_Type;          /* the real code uses &PyCapsule_Type.tp_as_buffer as a lock word */
static int slot_holder_lib = -1;

int sim_cas(void *volatile *addr, void *oldv, void *newv, int line)
{
    int is_slot = ((void *)addr == (void *)&PyCapsule_Type.tp_as_buffer);
    point(is_slot ? "cas-slot" : "cas", line, 0);
    if (*addr == oldv) {
        *addr = newv;
        change_epoch++;
        if (is_slot) slot_holder_lib = newv ? curlib() : -1;
        event("cas-ok", line);
        return 1;
    }
    if (is_slot) { if (py_initializing) probes[P_RACE_PYINIT]++; }
    else probes[P_LAZY_MUTEX_RACED]++;
    probes[P_SPIN_PARKED]++;
    park(ST_SPIN, (void *)addr, "cas-fail", line);
    return 0;
}

void sim_sync(int line) { point("sync", line, 1); }

void sim_assert_ok(const char *expr, int line)
{
    /* asserts are real checks and also yield points.  The second pass over the
       same assert with no change in the world in between is a stuttering
       step: park until something changes. */
    co_t *c = &co[cur];
    if (strstr(expr, "mark")) {
        if (py_initializing) probes[P_RACE_PYINIT]++;
        if (slot_holder_lib >= 0 && slot_holder_lib != curlib()) probes[P_SPIN_OTHER_LIB]++;
    }
    if (c->spin_line == line && c->spin_epoch == change_epoch) {
        probes[P_SPIN_PARKED]++;
        park(ST_SPIN, NULL, "spin", line);
    }
    else {
        c->spin_line = line;
        c->spin_epoch = change_epoch;
        point("assert", line, 0);
    }
}

void sim_assert_fail(const char *expr, const char *file, int line)
{
    violate("C28.4", "assertion failed in the start-up code (the process would abort): %s at line %d", expr, line);
}

/* simulated pthread mutexes, keyed by address */
static struct smutex { pthread_mutex_t *addr; int inited, recursive, owner, count; } mtx[8];
static int nmtx;
static struct { pthread_mutexattr_t *addr; int type; } mattr[8]; static int nmattr;

static struct smutex *getm(pthread_mutex_t *m)
{
    int i;
    for (i = 0; i < nmtx; i++) if (mtx[i].addr == m) return &mtx[i];
    if (nmtx == 8) harness("too many mutexes");
    mtx[nmtx].addr = m; mtx[nmtx].inited = 0; mtx[nmtx].recursive = 0; mtx[nmtx].owner = -1; mtx[nmtx].count = 0;
    return &mtx[nmtx++];
}

int sim_mutexattr_init(pthread_mutexattr_t *a)
{
    if (nmattr == 8) nmattr = 0;
    mattr[nmattr].addr = a; mattr[nmattr].type = PTHREAD_MUTEX_DEFAULT; nmattr++;
    return 0;
}
int sim_mutexattr_settype(pthread_mutexattr_t *a, int type)
{
    int i;
    for (i = nmattr - 1; i >= 0; i--) if (mattr[i].addr == a) { mattr[i].type = type; break; }
    return 0;
}
int sim_mutex_init(pthread_mutex_t *m, const pthread_mutexattr_t *a, int line)
{
    struct smutex *s = getm(m); int i, type = PTHREAD_MUTEX_DEFAULT, waiters = 0;
    point("mutex-init", line, 1);
    for (i = nmattr - 1; i >= 0; i--) if (a && mattr[i].addr == a) { type = mattr[i].type; break; }
    for (i = 0; i < nco; i++) if (co[i].state == ST_MUTEX && co[i].blocked_on == (void *)m) waiters++;
    if (s->inited && (s->owner >= 0 || waiters)) {
        /* undefined behaviour in POSIX; glibc resets the mutex: model exactly that so
           that the consequence (lost mutual exclusion) is what the oracle sees */
        probes[P_MUTEX_REINIT]++;
    }
    s->inited = 1; s->recursive = (type == PTHREAD_MUTEX_RECURSIVE); s->owner = -1; s->count = 0;
    wake(ST_MUTEX, (void *)m);
    return 0;
}
int sim_mutex_lock(pthread_mutex_t *m, int line)
{
    struct smutex *s = getm(m);
    point("mutex-lock", line, 1);
    for (;;) {
        if (s->owner < 0) { s->owner = cur; s->count = 1; break; }
        if (s->owner == cur && s->recursive) { s->count++; break; }
        /* owner == cur on a non-recursive mutex blocks forever, like the real one */
        probes[P_MUTEX_CONTENDED]++;
        park(ST_MUTEX, (void *)m, "mutex-wait", line);
    }
    change_epoch++;
    event("mutex-got", line);
    return 0;
}
int sim_mutex_unlock(pthread_mutex_t *m, int line)
{
    struct smutex *s = getm(m);
    if (s->owner == cur) {
        if (--s->count == 0) { s->owner = -1; wake(ST_MUTEX, (void *)m); }
    }
    point("mutex-unlock", line, 1);
    return 0;
}

static int printed_failed_msg;
int sim_fprintf(FILE *fp, const char *fmt, ...)
{
    if (strstr(fmt, "initialization code")) printed_failed_msg++;
    event("fprintf", 0);
    return 0;
}

/* ---------------------------------------------------------------- */
/* the simulated GIL                                                 */
/* ---------------------------------------------------------------- */
static void gil_take(const char *why)
{
    while (gil_owner >= 0 && gil_owner != cur) {
        probes[P_GIL_CONTENDED]++;
        park(ST_GIL, &gil_owner, "gil-wait", 0);
    }
    gil_owner = cur;
    change_epoch++;
    event(why, 0);
}
static void gil_drop(const char *why)
{
    if (gil_owner == cur) { gil_owner = -1; wake(ST_GIL, &gil_owner); }
    point(why, 0, 1);
}

/* ---------------------------------------------------------------- */
/* stub CPython                                                      */
/* ---------------------------------------------------------------- */
typedef struct { PyObject_HEAD int kind; int lib; void *p; } SObj;
enum { K_MISC, K_PTR, K_CODE, K_MODULE };
static PyTypeObject StubType;
#define SOBJ(k) { { { _Py_IMMORTAL_REFCNT }, &StubType }, k, -1, NULL }
PyObject _Py_NoneStruct = { { _Py_IMMORTAL_REFCNT }, &StubType };
static SObj o_backend = SOBJ(K_MODULE), o_builtins = SOBJ(K_MISC), o_stderr = SOBJ(K_MISC),
            o_path = SOBJ(K_MISC), o_modules = SOBJ(K_MISC), o_exc = SOBJ(K_MISC), o_str = SOBJ(K_MISC);
static SObj pool[512]; static int npool;
static SObj *newobj(int kind, int l, void *p)
{
    SObj *o;
    if (npool == 512) harness("stub object pool exhausted");
    o = &pool[npool++];
    o->ob_base.ob_refcnt = _Py_IMMORTAL_REFCNT; o->ob_base.ob_type = &StubType;
    o->kind = kind; o->lib = l; o->p = p;
    return o;
}

void _Py_Dealloc(PyObject *o) { harness("_Py_Dealloc called on a stub object"); }

int Py_IsInitialized(void) { point("Py_IsInitialized", 0, 0); return py_initialized; }

void Py_InitializeEx(int initsigs)
{
    event("Py_InitializeEx", 0);
    if (py_initialized)
        violate("C28.1", "Py_InitializeEx() entered although Python is already initialized");
    if (py_initializing)
        violate("C28.1", "Py_InitializeEx() entered by T%d while another thread is inside it", cur);
    if (++py_init_count > 1)
        violate("C28.1", "Py_InitializeEx() entered %d times", py_init_count);
    py_initializing = 1; py_initializer = cur; co[cur].in_pyinit = 1;
    point("pyinit-1", 0, 1);
    /* as in CPython: the 'initialized' flag becomes visible before Py_InitializeEx() returns
       (site, sitecustomize and .pth processing still follow, and may block with the GIL released) */
    py_initialized = 1;
    gil_owner = cur;
    change_epoch++;
    point("pyinit-2", 0, 1);
    gil_drop("pyinit-site-blocks");
    gil_take("pyinit-site-resumes");
    point("pyinit-3", 0, 1);
    py_initializing = 0; co[cur].in_pyinit = 0;
    gil_owner = cur;                  /* returns holding the GIL */
    change_epoch++;
    errno = ENOENT;                   /* the real start-up leaves errno in any state (failed stat() calls) */
    event("pyinit-done", 0);
}

PyThreadState *PyEval_SaveThread(void)
{
    if (gil_owner != cur)
        violate("C28.4", "PyEval_SaveThread() called by T%d without holding the GIL (fatal error in CPython)", cur);
    gil_drop("SaveThread");
    return (PyThreadState *)&o_str;
}

static void check_not_half_initialized(const char *what)
{
    if (py_initializing && cur != py_initializer)
        violate("C28.1", "T%d calls %s while Py_InitializeEx() is still running in T%d: the interpreter is used "
                "before its (single) initialization has finished", cur, what, py_initializer);
}

PyGILState_STATE PyGILState_Ensure(void)
{
    point("GILState_Ensure", 0, 0);
    check_not_half_initialized("PyGILState_Ensure()");
    if (!py_initialized)
        violate("C28.4", "PyGILState_Ensure() called by T%d before Python is initialized (fatal error in CPython)", cur);
    if (gil_owner == cur) return PyGILState_LOCKED;
    gil_take("gil-got");
    return PyGILState_UNLOCKED;
}

void PyGILState_Release(PyGILState_STATE st)
{
    if (st == PyGILState_UNLOCKED) gil_drop("GILState_Release");
    else point("GILState_Release-nested", 0, 0);
}

static void mark_failed(int l, int kind)
{
    int i;
    lib[l].state = LS_FAILED; lib[l].failed = 1; fk[kind]++;
    change_epoch++;
    for (i = 0; i < nco; i++)
        if (i != cur && co[i].state == ST_MUTEX) probes[P_PARKED_MUTEX_INIT_FAILS]++;
}

PyObject *PyImport_ImportModule(const char *name)
{
    int l = curlib();
    point("import", 0, 0);
    if (strcmp(name, "_cffi_backend") == 0) {
        if (l >= 0 && lib[l].fault == F_IMP) { co[cur].err = 1; mark_failed(l, FK_IMPORT_FAILS); return NULL; }
        return (PyObject *)&o_backend;
    }
    return (PyObject *)newobj(K_MODULE, -1, NULL);
}

PyObject *PyLong_FromVoidPtr(void *p) { return (PyObject *)newobj(K_PTR, -1, p); }

static void stub_call_python(struct _cffi_externpy_s *ep, char *args);
static void trap_export(void) { harness("an unexpected _cffi_exports[] entry was called"); }

static PyObject *callmethod_impl(PyObject *obj, const char *name, PyObject *arg);
#undef PyObject_CallMethod
PyObject *PyObject_CallMethod(PyObject *obj, const char *name, const char *fmt, ...)
{
    va_list ap; PyObject *arg = NULL;
    va_start(ap, fmt);
    if (fmt && fmt[0] == 'O') arg = va_arg(ap, PyObject *);
    va_end(ap);
    return callmethod_impl(obj, name, arg);
}
PyObject *_PyObject_CallMethod_SizeT(PyObject *obj, const char *name, const char *fmt, ...)
{
    va_list ap; PyObject *arg = NULL;
    va_start(ap, fmt);
    if (fmt && fmt[0] == 'O') arg = va_arg(ap, PyObject *);
    va_end(ap);
    return callmethod_impl(obj, name, arg);
}
static PyObject *callmethod_impl(PyObject *obj, const char *name, PyObject *arg)
{
    point("CallMethod", 0, 0);
    if (strcmp(name, "_init_cffi_1_0_external_module") == 0 && arg && ((SObj *)arg)->kind == K_PTR) {
        void **raw = (void **)((SObj *)arg)->p;
        const char *modname = (const char *)raw[0];
        void **exports = (void **)raw[2];
        int l = (strcmp(modname, "libB") == 0), i;
        if (++lib[l].modinit > 1)
            violate("C28.2", "module initialization of %s ran %d times", modname, lib[l].modinit);
        if (lib[l].fault == F_MOD) { co[cur].err = 1; mark_failed(l, FK_MODINIT_FAILS); return NULL; }
        for (i = 0; i < 28; i++) exports[i] = (void *)trap_export;
        exports[25] = (void *)stub_call_python;
        change_epoch++;
        return (PyObject *)newobj(K_MODULE, l, NULL);
    }
    return Py_None;
}

PyObject *Py_CompileStringExFlags(const char *str, const char *filename, int start, PyCompilerFlags *fl, int opt)
{
    int l = (strstr(str, "INIT_B") != NULL);
    point("compile", 0, 0);
    if (lib[l].fault == F_CMP) { co[cur].err = 1; mark_failed(l, FK_COMPILE_FAILS); return NULL; }
    return (PyObject *)newobj(K_CODE, l, NULL);
}

PyObject *PyDict_New(void) { return (PyObject *)newobj(K_MISC, -1, NULL); }
PyObject *PyEval_GetBuiltins(void) { return (PyObject *)&o_builtins; }
int PyDict_SetItemString(PyObject *d, const char *k, PyObject *v) { return 0; }
PyObject *PyDict_GetItemString(PyObject *d, const char *k) { return (PyObject *)&o_backend; }
PyObject *PyErr_Occurred(void) { return co[cur].err ? (PyObject *)&o_exc : NULL; }
void PyErr_Fetch(PyObject **t, PyObject **v, PyObject **tb)
{ *t = co[cur].err ? (PyObject *)&o_exc : NULL; *v = NULL; *tb = NULL; co[cur].err = 0; }
void PyErr_NormalizeException(PyObject **t, PyObject **v, PyObject **tb) { }
void PyErr_Display(PyObject *t, PyObject *v, PyObject *tb) { event("PyErr_Display", 0); }
PyObject *PySys_GetObject(const char *n) { return (PyObject *)(strcmp(n, "stderr") == 0 ? &o_stderr : &o_path); }
int PyFile_WriteString(const char *s, PyObject *f) { return 0; }
int PyFile_WriteObject(PyObject *o, PyObject *f, int flags) { return 0; }
PyObject *PyImport_GetModuleDict(void) { return (PyObject *)&o_modules; }
PyObject *PyObject_GetAttrString(PyObject *o, const char *n) { return (PyObject *)&o_str; }

static void do_call(call_t *c, int from_init);

PyObject *PyEval_EvalCode(PyObject *code, PyObject *g, PyObject *loc)
{
    int l = ((SObj *)code)->lib, i;
    event("EvalCode", l);
    check_not_half_initialized("PyEval_EvalCode()");
    if (gil_owner != cur) harness("PyEval_EvalCode without the GIL");
    if (++lib[l].evalcount > 1)
        violate("C28.2", "the init code of lib%c ran %d times", 'A' + l, lib[l].evalcount);
    errno = EAGAIN;                   /* running Python code leaves errno in any state */
    lib[l].state = LS_RUNNING; lib[l].init_thread = cur;
    change_epoch++;
    for (i = 0; i < lib[l].nsteps; i++) {
        istep_t *s = &lib[l].steps[i];
        if (s->op == 'y') { gil_drop("init-yield"); gil_take("init-resume"); }
        else if (s->op == 'd') { registered[s->fn] = 1; point("def_extern", s->fn, 1); }
        else if (s->op == 'c') {
            fk[FK_RECURSIVE_CALL]++;
            gil_drop("init-call-out");          /* cffi's own wrappers release the GIL around a C call */
            do_call(&s->call, 1);
            gil_take("init-call-back");
        }
        else if (s->op == 'r') { co[cur].err = 1; mark_failed(l, FK_INIT_RAISES); event("init-raise", l); return NULL; }
    }
    lib[l].state = LS_OK;
    change_epoch++;
    event("init-ok", l);
    return Py_None;
}

/* stand-in for _cffi_backend's cffi_call_python() */
static void stub_call_python(struct _cffi_externpy_s *ep, char *args)
{
    int l = (strncmp(ep->name, "libB", 4) == 0);
    int fn = l ? 2 : (ep->name[5] == 'g' ? 1 : 0);
    int d = co[cur].depth - 1, i;
    int entry_errno = errno;
    if (d >= 0 && entry_errno != co[cur].want_errno[d]) unspec[U_ENTRY_ERRNO]++;
    point("call_python", fn, 0);
    if (!(lib[l].state == LS_OK || (lib[l].state == LS_RUNNING && lib[l].init_thread == cur)))
        violate("C28.3", "T%d runs extern \"Python\" function %s although the initialization of lib%c %s",
                cur, ep->name, 'A' + l,
                lib[l].state == LS_NONE ? "has not started" :
                lib[l].state == LS_RUNNING ? "is still running in another thread" : "failed");
    if (d >= 0) co[cur].entered[d] = 1;
    if (!registered[fn]) {
        probes[P_CALL_NOT_REGISTERED]++;
        memset(args, 0, ep->size_of_result);
        if (d >= 0) memset(co[cur].written[d], 0, 16);
        event("call_python-unregistered", fn);
        return;
    }
    if (!py_initialized)
        violate("C28.4", "cffi_call_python reached before Python is initialized");
    {
        int had = (gil_owner == cur);
        if (!had) gil_take("cb-gil");
        for (i = 0; i < fn_yields; i++) { gil_drop("cb-yield"); gil_take("cb-resume"); }
        if (fn == 0) { int x = *(int *)args, y = *(int *)(args + 8); *(int *)args = x * 31 + y + 7; }
        else if (fn == 1) { int x = *(int *)args; pair_t r; r.a = x + 1000; r.b = 2L * x + 1; memcpy(args, &r, sizeof r); }
        else { long x = *(long *)args; *(long *)args = 3 * x + 1; }
        if (d >= 0) memcpy(co[cur].written[d], args, ep->size_of_result > 16 ? 16 : ep->size_of_result);
        if (!had) gil_drop("cb-done");
    }
}

/* ---------------------------------------------------------------- */
/* driver: one call into a library                                   */
/* ---------------------------------------------------------------- */
static void do_call(call_t *c, int from_init)
{
    co_t *me = &co[cur];
    int l = calllib[c->kind], d, i;
    char res[16]; size_t rsz = 0; int sret = 0;
    if (me->depth == MAXDEPTH) harness("call depth");
    d = me->depth++;
    me->libstack[d] = l; me->entered[d] = 0; memset(me->written[d], 0, 16);
    memset(res, 0, sizeof res);
    if (from_init) {
        int outer = me->libstack[d - 1];
        if (outer == l) probes[P_RECURSIVE_SAME_LIB]++;
        else {
            probes[P_CROSS_LIB_DURING_INIT]++;
            for (i = 0; i < nco; i++)
                if (i != cur && co[i].depth && co[i].libstack[co[i].depth - 1] == l) probes[P_CROSS_LIB_RACED]++;
        }
    }
    point("call", c->kind, 1);
    /* the C caller's errno: unique per call; start-up work of the interpreter clobbers errno */
    me->want_errno[d] = 3000 + 16 * (int)steps % 100000 + d;
    errno = me->want_errno[d];
    switch (c->kind) {
    case C_AF: { int r = f((int)c->a1, (int)c->a2); memcpy(res, &r, sizeof r); rsz = sizeof r; break; }
    case C_AG: { pair_t r = g((int)c->a1); memcpy(res, &r, sizeof r); rsz = sizeof r; break; }
    case C_BH: { long r = h(c->a1); memcpy(res, &r, sizeof r); rsz = sizeof r; break; }
    case C_AS: sret = A_start(); break;
    case C_BS: sret = B_start(); break;
    }
    event("ret", c->kind);
    change_epoch++;
    if (c->kind <= C_BH) {
        int allzero = 1;
        for (i = 0; i < (int)rsz; i++) if (res[i]) allzero = 0;
        if (lib[l].failed) {
            if (!allzero)
                violate("C28.5", "%s returned a non-zero result (first word %ld) although the initialization of lib%c had failed",
                        callname[c->kind], *(long *)res & (rsz == 4 ? 0xffffffffL : -1L), 'A' + l);
            if (me->entered[d])
                violate("C28.5", "%s ran its Python function although the initialization of lib%c had failed",
                        callname[c->kind], 'A' + l);
            probes[P_FAILED_CALL_ZEROED]++;
        }
        else if (!me->entered[d]) unspec[U_CALL_NOT_ENTERED]++;
        else if (memcmp(res, me->written[d], rsz) != 0) unspec[U_RESULT_MISMATCH]++;
    }
    else {
        if (from_init && me->libstack[d - 1] == l) probes[P_START_RECURSIVE]++;
        if (lib[l].state == LS_FAILED) { if (sret != -1) unspec[U_START_RET]++; }
        else if (lib[l].state == LS_OK) { if (sret != 0) unspec[U_START_RET]++; }
    }
    me->depth--;
}

static void co_main(int id)
{
    int i;
    for (i = 0; i < co[id].ncalls; i++)
        do_call(&co[id].calls[i], 0);
    co[id].state = ST_DONE;
    change_epoch++;
    event("done", 0);
    {
        int nxt = decide(0);
        if (nxt >= 0) { cur = nxt; if (co[nxt].state == ST_SPIN) co[nxt].state = ST_RUN; setcontext(&co[nxt].ctx); }
        for (i = 0; i < nco; i++) if (co[i].state != ST_DONE) deadlock();
        setcontext(&main_ctx);
    }
}

/* ---------------------------------------------------------------- */
/* parsing a case line                                               */
/* ---------------------------------------------------------------- */
static int parse_call(const char *s, call_t *c)
{
    char nm[8]; long a1 = 1, a2 = 1; int n;
    n = sscanf(s, "%2[A-Za-z]:%ld:%ld", nm, &a1, &a2);
    if (n < 1) return -1;
    if (!strcmp(nm, "Af")) c->kind = C_AF; else if (!strcmp(nm, "Ag")) c->kind = C_AG;
    else if (!strcmp(nm, "Bh")) c->kind = C_BH; else if (!strcmp(nm, "As")) c->kind = C_AS;
    else if (!strcmp(nm, "Bs")) c->kind = C_BS; else return -1;
    c->a1 = a1; c->a2 = a2;
    return 0;
}

static void parse_init(int l, char *v)
{
    char *save, *t;
    lib[l].nsteps = 0;
    for (t = strtok_r(v, ",", &save); t; t = strtok_r(NULL, ",", &save)) {
        istep_t *s;
        if (!strcmp(t, "-")) continue;
        if (lib[l].nsteps == MAXSTEPS) break;
        s = &lib[l].steps[lib[l].nsteps++];
        s->op = t[0];
        if (t[0] == 'd') s->fn = (t[1] == 'F') ? 0 : (t[1] == 'G') ? 1 : 2;
        else if (t[0] == 'c') { if (parse_call(t + 1, &s->call) < 0) harness("bad init call '%s'", t); }
    }
}

static int parse_fault(const char *v)
{
    if (!strcmp(v, "imp")) return F_IMP; if (!strcmp(v, "mod")) return F_MOD;
    if (!strcmp(v, "cmp")) return F_CMP; return F_NONE;
}

static void parse_case(char *line)
{
    char *save, *tok; int preinit = 0;
    uint64_t seed = 0;
    strat = 0; stick_pct = 80; pct_n = 2; est_len = 300; fn_yields = 0; nco = 0; want_trace = 0;
    for (tok = strtok_r(line, " \n", &save); tok; tok = strtok_r(NULL, " \n", &save)) {
        char *eq = strchr(tok, '='), *v;
        if (!eq) continue;
        *eq = 0; v = eq + 1;
        if (!strcmp(tok, "idx")) idx = atol(v);
        else if (!strcmp(tok, "seed")) seed = strtoull(v, NULL, 10);
        else if (!strcmp(tok, "strat")) strat = atoi(v);
        else if (!strcmp(tok, "stick")) stick_pct = atoi(v);
        else if (!strcmp(tok, "pctn")) pct_n = atoi(v);
        else if (!strcmp(tok, "est")) est_len = atoi(v);
        else if (!strcmp(tok, "preinit")) preinit = atoi(v);
        else if (!strcmp(tok, "fy")) fn_yields = atoi(v);
        else if (!strcmp(tok, "trace")) want_trace = atoi(v);
        else if (!strcmp(tok, "IA")) parse_init(0, v);
        else if (!strcmp(tok, "IB")) parse_init(1, v);
        else if (!strcmp(tok, "FA")) lib[0].fault = parse_fault(v);
        else if (!strcmp(tok, "FB")) lib[1].fault = parse_fault(v);
        else if (!strcmp(tok, "S")) {
            char *p = v; replay_n = 0;
            for (; *p; p++) if (*p >= '0' && *p <= '9' && replay_n < MAXSCHED) replay[replay_n++] = *p - '0';
        }
        else if (!strcmp(tok, "T")) {
            char *s2, *th;
            for (th = strtok_r(v, ";", &s2); th; th = strtok_r(NULL, ";", &s2)) {
                char *s3, *c; co_t *k;
                if (nco == MAXCO) break;
                k = &co[nco++]; k->ncalls = 0;
                for (c = strtok_r(th, ",", &s3); c; c = strtok_r(NULL, ",", &s3)) {
                    if (!strcmp(c, "-")) continue;
                    if (k->ncalls < MAXCALLS && parse_call(c, &k->calls[k->ncalls]) == 0) k->ncalls++;
                }
            }
        }
    }
    rng_s = seed;
    if (preinit) { py_initialized = 1; probes[P_PREINIT]++; }
    if (pct_n > 8) pct_n = 8;
    { int i; for (i = 0; i < pct_n; i++) pct_points[i] = (int)(rnd() % (est_len > 0 ? est_len : 1)); }
    if (strat == 2) fk[FK_STALL_PCT]++;
}

static void on_alarm(int sig)
{
    harness("no progress for 10 s of CPU: a thread spins without reaching any seam (last: %s)",
            shared ? shared->last : "?");
}

static void run_case(char *line)
{
    int i;
    parse_case(line);
    if (nco == 0) harness("no threads in case");
    alarm(10);
    for (i = 0; i < nco; i++) {
        co[i].stack = stacks[i];
        getcontext(&co[i].ctx);
        co[i].ctx.uc_stack.ss_sp = co[i].stack;
        co[i].ctx.uc_stack.ss_size = STACKSZ;
        co[i].ctx.uc_link = &main_ctx;
        co[i].state = ST_RUN; co[i].spin_line = -1; co[i].prio = i;
        makecontext(&co[i].ctx, (void (*)(void))co_main, 1, i);
    }
    if (strat == 2 && replay_n < 0) {      /* PCT: random initial priorities */
        for (i = nco - 1; i > 0; i--) { int j = rnd() % (i + 1), t = co[i].prio; co[i].prio = co[j].prio; co[j].prio = t; }
    }
    for (i = 0; i < 2; i++) {
        int k, reg = 0;
        for (k = 0; k < lib[i].nsteps; k++) if (lib[i].steps[k].op == 'd') reg = 1;
        if (!reg) fk[FK_NEVER_REGISTERED]++;
    }
    cur = -1;
    {
        int first = decide(0);
        cur = first;
        swapcontext(&main_ctx, &co[first].ctx);
    }
    /* all coroutines done */
    if (PyCapsule_Type.tp_as_buffer != NULL) probes[P_SLOT_NOT_NULL_AT_END]++;
    finish("ok", "", "");
}

extern char __data_start[], end[];
static char *snap; static size_t snap_len;

static void on_fatal(int sig)
{
    /* the code under test crashed (e.g. a call through a NULL function pointer).
       Report the run as "process died" and leave: the static state of the generated
       code cannot be trusted any more, the driver restarts us for the remaining cases. */
    static char buf[MAXSCHED + 600]; char esc[200]; int n, k;
    json_str(esc, sizeof esc, shared->last);
    n = snprintf(buf, sizeof buf, "{\"idx\":%ld,\"verdict\":\"violation\",\"clause\":\"C28.4\",\"detail\":\"the process died "
                 "with signal %d inside a call (last seam: %s)\",\"steps\":%ld,\"switches\":%ld,\"digest\":\"%016llx\","
                 "\"probes\":{},\"unspec\":{},\"faults\":{},\"died\":true,\"schedule\":\"",
                 idx, sig, esc, steps, switches, (unsigned long long)digest);
    for (k = 0; k < sched_n && k < MAXSCHED; k++) buf[n++] = '0' + sched_rec[k];
    n += snprintf(buf + n, sizeof buf - n, "\"}\n");
    { ssize_t w = write(1, buf, n); (void)w; }
    _exit(3);
}

int main(int argc, char **argv)
{
    static char line[65536];
    static char altstack[65536];
    ucontext_t top;
    volatile int phase;
    int i;
    stack_t ss; struct sigaction sa;

    shared = mmap(NULL, sizeof *shared, PROT_READ | PROT_WRITE, MAP_SHARED | MAP_ANONYMOUS, -1, 0);
    sched_rec = shared->sched;
    for (i = 0; i < MAXCO; i++)
        stacks[i] = mmap(NULL, STACKSZ, PROT_READ | PROT_WRITE, MAP_PRIVATE | MAP_ANONYMOUS, -1, 0);
    ss.ss_sp = altstack; ss.ss_size = sizeof altstack; ss.ss_flags = 0;
    sigaltstack(&ss, NULL);
    memset(&sa, 0, sizeof sa);
    sa.sa_handler = on_fatal; sa.sa_flags = SA_ONSTACK | SA_NODEFER;
    sigaction(SIGSEGV, &sa, NULL); sigaction(SIGBUS, &sa, NULL); sigaction(SIGILL, &sa, NULL);
    sigaction(SIGFPE, &sa, NULL); sigaction(SIGABRT, &sa, NULL);
    sa.sa_handler = on_alarm; sa.sa_flags = SA_ONSTACK;
    sigaction(SIGALRM, &sa, NULL);
    top_p = &top;

    /* Snapshot of every writable static of this executable -- the simulator's own state
       and, crucially, the static variables of the generated start-up code ('called',
       '_cffi_call_python', the lazy mutex, _cffi_exports[], ...), which cannot be reset
       through any interface.  Restoring it after each run gives every run a pristine
       process image without paying for a fork (fork does not scale in this sandbox). */
    snap_len = (size_t)(end - __data_start);
    snap = malloc(snap_len);
    memcpy(snap, __data_start, snap_len);

    while (fgets(line, sizeof line, stdin)) {
        if (line[0] == '\n' || line[0] == '#') continue;
        phase = 0;
        getcontext(&top);
        if (phase == 0) {
            phase = 1;
            shared->last[0] = 0;
            run_case(line);
            _exit(4);                     /* not reached: finish() returns through 'top' */
        }
        memcpy(__data_start, snap, snap_len);
    }
    return 0;
}
