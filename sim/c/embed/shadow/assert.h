/* Shadow <assert.h>, earlier on the include path of the generated embedding
   module only.  Every assert() in that translation unit stays a *real check*
   and additionally becomes a point at which the simulator may switch
   coroutines -- this is what lets a coroutine spinning in the (call-free)
   else-branch of _cffi_carefully_make_gil's spin loop yield.                */
#undef assert
void sim_assert_ok(const char *expr, int line);
void sim_assert_fail(const char *expr, const char *file, int line);
#define assert(e) ((e) ? sim_assert_ok(#e, __LINE__) : sim_assert_fail(#e, __FILE__, __LINE__))
