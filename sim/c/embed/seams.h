/* Force-included (-include) in front of the GENERATED embedding module text
   (real _cffi_include.h + real _embedding.h + real trampolines), which is not
   edited.  Turns every synchronisation primitive the start-up code uses into
   a call into the simulator (c28sim.c).                                      */
#ifndef SIM_SEAMS_H
#define SIM_SEAMS_H
#include <stddef.h>
#include <stdio.h>
#include <stdlib.h>
#include <string.h>
#include <errno.h>
#include <pthread.h>

int  sim_cas(void *volatile *addr, void *oldv, void *newv, int line);
void sim_sync(int line);
int  sim_mutexattr_init(pthread_mutexattr_t *a);
int  sim_mutexattr_settype(pthread_mutexattr_t *a, int type);
int  sim_mutex_init(pthread_mutex_t *m, const pthread_mutexattr_t *a, int line);
int  sim_mutex_lock(pthread_mutex_t *m, int line);
int  sim_mutex_unlock(pthread_mutex_t *m, int line);
int  sim_fprintf(FILE *f, const char *fmt, ...);
void sim_assert_ok(const char *expr, int line);
void sim_assert_fail(const char *expr, const char *file, int line);

#define __sync_bool_compare_and_swap(l,o,n) \
        sim_cas((void *volatile *)(l), (void *)(o), (void *)(n), __LINE__)
#define __sync_synchronize()            sim_sync(__LINE__)
#define pthread_mutexattr_init(a)       sim_mutexattr_init(a)
#define pthread_mutexattr_settype(a,t)  sim_mutexattr_settype(a,t)
#define pthread_mutex_init(m,a)         sim_mutex_init(m,a,__LINE__)
#define pthread_mutex_lock(m)           sim_mutex_lock(m,__LINE__)
#define pthread_mutex_unlock(m)         sim_mutex_unlock(m,__LINE__)
#define fprintf                         sim_fprintf

#endif
