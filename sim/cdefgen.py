"""Seeded generator of cdef texts (declarations) used by C23 (and anything
else that needs varied generated modules).  Output is a dict that can be
turned into an FFI in any interpreter: {cdef, name, source or None, kind}."""

PRIMS = ['int', 'unsigned int', 'long', 'short', 'char', 'unsigned char', 'long long',
         'float', 'double', 'size_t', 'int32_t', 'uint64_t', 'int8_t', '_Bool', 'uint16_t']
WORDS = ['alpha', 'beta', 'gamma', 'delta', 'node', 'item', 'ctx', 'buf', 'pt', 'vec', 'conf',
         'state', 'handle', 'frame', 'pkt', 'hdr', 'rec', 'opt', 'tok', 'span', 'cell', 'edge']


class Names(object):
    def __init__(self, rng):
        self.rng = rng
        self.used = set()

    def new(self, prefix=''):
        while True:
            n = prefix + self.rng.choice(WORDS) + '_%x' % self.rng.below(0xfffff)
            if n not in self.used:
                self.used.add(n)
                return n


def gen_case(rng, abi=False):
    """abi=True: a dlopen-style module (set_source(name, None)): no '...' anywhere."""
    names = Names(rng)
    decls = []
    types = list(PRIMS)          # usable value types
    ptr_ok = []                  # struct tags usable behind a pointer (incl. opaque)
    structs = []
    n_items = rng.randint(3, 22)
    for _ in range(n_items):
        kind = rng.weighted([('struct', 5), ('typedef', 3), ('enum', 3), ('func', 6), ('const', 3),
                             ('global', 2), ('opaque', 2), ('funcptr', 2), ('union', 1),
                             ('externpy', 0 if abi else 2), ('macro', 2), ('anonstruct', 2), ('anonenum', 1)])
        if kind == 'anonstruct':
            # typedef of a struct without a tag
            td = names.new('A_')
            flds = ' '.join('%s a%d_%s;' % (rng.choice(types), j, rng.choice(WORDS)) for j in range(rng.randint(1, 4)))
            decls.append('typedef struct { %s } %s;' % (flds, td))
            types.append(td)
            continue
        if kind == 'anonenum':
            vals = [names.new('Q').upper() for _ in range(rng.randint(1, 4))]
            if rng.chance(0.5):
                td = names.new('Z_')
                decls.append('typedef enum { %s } %s;' % (', '.join(vals), td))
                types.append(td)
            else:
                decls.append('enum { %s };' % ', '.join(vals))
            continue
        if kind == 'typedef':
            n = names.new('t_')
            decls.append('typedef %s %s;' % (rng.choice(types), n))
            types.append(n)
        elif kind in ('struct', 'union'):
            tag = names.new('s_')
            fields = []
            for i in range(rng.randint(1, 6)):
                ft = rng.choice(types)
                fn = 'f%d_%s' % (i, rng.choice(WORDS))
                r = rng.random()
                if r < 0.12:
                    # an unnamed nested struct/union used as the type of a named field
                    sub = ' '.join('%s n%d_%s;' % (rng.choice(PRIMS), j, rng.choice(WORDS))
                                   for j in range(rng.randint(1, 3)))
                    fields.append('%s { %s } %s;' % (rng.choice(['struct', 'struct', 'union']), sub, fn))
                    continue
                if r < 0.15 and i > 0:
                    # C11 anonymous member: its fields are merged into the enclosing aggregate
                    sub = ' '.join('%s m%d%d_%s;' % (rng.choice(PRIMS), i, j, rng.choice(WORDS))
                                   for j in range(rng.randint(1, 2)))
                    fields.append('%s { %s };' % (rng.choice(['struct', 'union']), sub))
                    continue
                if r < 0.22 and ptr_ok:
                    fields.append('struct %s *%s;' % (rng.choice(ptr_ok), fn))
                elif r < 0.3:
                    fields.append('%s %s[%d];' % (ft, fn, rng.randint(1, 9)))
                elif r < 0.4:
                    fields.append('%s *%s;' % (ft, fn))
                elif r < 0.47 and ft in ('int', 'unsigned int'):
                    fields.append('%s %s : %d;' % (ft, fn, rng.randint(1, 15)))
                else:
                    fields.append('%s %s;' % (ft, fn))
            if rng.chance(0.2):
                fields.append('struct %s *next;' % tag)
            if not abi and kind == 'struct' and rng.chance(0.2) and not any(' : ' in x for x in fields):
                fields.append('...;')
            partial = '...;' in fields     # a partial struct is only used behind pointers
            if kind == 'struct' and rng.chance(0.5):
                td = names.new('T_')
                decls.append('typedef struct %s { %s } %s;' % (tag, ' '.join(fields), td))
                if not partial:
                    types.append(td)
            else:
                decls.append('%s %s { %s };' % (kind, tag, ' '.join(fields)))
                if kind == 'struct' and not partial:
                    types.append('struct ' + tag)
            if kind == 'struct':
                ptr_ok.append(tag)
                structs.append(tag)
        elif kind == 'opaque':
            tag = names.new('o_')
            td = names.new('O_')
            decls.append('typedef struct %s %s;' % (tag, td))
            ptr_ok.append(tag)
        elif kind == 'enum':
            tag = names.new('e_')
            vals = []
            v = rng.randint(-3, 5)
            for i in range(rng.randint(1, 6)):
                en = names.new('E').upper()
                if rng.chance(0.5):
                    v = v + rng.randint(1, 40)
                    vals.append('%s = %d' % (en, v))
                else:
                    v += 1
                    vals.append(en)
            if not abi and rng.chance(0.15):
                vals.append('...')
            decls.append('enum %s { %s };' % (tag, ', '.join(vals)))
            types.append('enum ' + tag)
        elif kind in ('func', 'externpy'):
            n = names.new('fn_')
            args = []
            for i in range(rng.randint(0, 5)):
                t = rng.choice(types)
                r = rng.random()
                if r < 0.25:
                    t += ' *'
                elif r < 0.32 and ptr_ok:
                    t = 'struct %s *' % rng.choice(ptr_ok)
                elif r < 0.38:
                    t = 'const char *'
                args.append(t)
            res = rng.choice(types + ['void', 'void *', 'const char *'])
            ell = ', ...' if (args and kind == 'func' and rng.chance(0.12)) else ''
            pre = 'extern "Python" ' if kind == 'externpy' else ''
            decls.append('%s%s %s(%s%s);' % (pre, res, n, ', '.join(args) or 'void', ell))
        elif kind == 'funcptr':
            n = names.new('cb_')
            decls.append('typedef %s (*%s)(%s);' % (rng.choice(types + ['void']), n,
                                                      ', '.join(rng.choice(types) for _ in range(rng.randint(1, 3)))))
            types.append(n)
        elif kind == 'const':
            n = names.new('K').upper()
            if abi or rng.chance(0.5):
                decls.append('#define %s %d' % (n, rng.randint(-1000, 100000)))
            else:
                decls.append('static const %s %s;' % (rng.choice(['int', 'long', 'unsigned int', 'double']), n))
        elif kind == 'macro':
            n = names.new('M').upper()
            if abi:
                decls.append('#define %s 0x%x' % (n, rng.below(1 << 30)))
            else:
                decls.append('#define %s ...' % n)
        elif kind == 'global':
            n = names.new('g_')
            t = rng.choice(types)
            if rng.chance(0.3):
                decls.append('extern %s %s[%d];' % (t, n, rng.randint(1, 20)))
            else:
                decls.append('extern %s %s;' % (t, n))
    modname = names.new('_m_')
    if rng.chance(0.2):
        modname = names.new('pkg_') + '.' + modname
    source = None if abi else ('/* prelude %d */\n#include <stddef.h>\n' % rng.below(1000) +
                               '\n'.join('/* %s */' % names.new('c_') for _ in range(rng.randint(0, 3))))
    if source is not None and rng.chance(0.3):
        # non-ASCII text in the C source (encoded length != number of characters)
        source += '\n/* %s */\n' % rng.choice(['caf\u00e9', '\u00fcber \u2192 na\u00efve', '\u4e2d\u6587 \U0001f600', '\u00a9 2026'])
    if source is not None:
        r3 = rng.fork('eol')
        if r3.chance(0.12):
            # C source with other line endings than '\n' (a file read with newline='', a literal)
            source = source.replace('\n', '\r\n') if r3.chance(0.6) else source + '/* old mac */\rint eol_dummy;\r'
        elif r3.chance(0.12):
            # characters that some line-splitting functions treat as line boundaries and others do not
            source += '\n/* page break */\x0c\nint ff_dummy;\x0b /* vt */ \x1c\x1d\x1e /* nel */ \x85 /* ls ps */ \u2028 \u2029\n'
    packed = rng.chance(0.1)
    case = dict(cdef='\n'.join(decls), name=modname, source=source, packed=packed)
    # declarations that reach the FFI object by other ways than its first cdef(): an included
    # parent FFI, a second cdef() that uses the parent's types, embedding init code
    r2 = rng.fork('late')
    if r2.chance(0.35):
        k = r2.below(1000)
        case['parent'] = dict(
            cdef='typedef struct par%d_s { int pa; long pb; } par%d_t; typedef unsigned short par%d_u16; '
                 'enum par%d_e { PAR%d_A, PAR%d_B = 5 };' % (k, k, k, k, k, k),
            name=modname.replace('.', '_') + '_base')
        # sometimes further, independent parents (the order of include() calls is part of the input)
        more = []
        for m in range(r2.weighted([(0, 5), (1, 2), (2, 2), (4, 1)])):
            more.append(dict(cdef='typedef struct xp%d_%d_s { char c%d; } xp%d_%d_t;' % (k, m, m, k, m),
                             name='%s_x%d_%s' % (modname.replace('.', '_'), m, r2.choice(['a', 'zz', 'lib', 'q9']))))
        if more:
            case['more_parents'] = more
        late = []
        for i in range(r2.randint(0, 3)):
            late.append(r2.choice(['par%d_t *use_par%d_%d(par%d_u16, enum par%d_e);' % (k, k, i, k, k),
                                   'typedef par%d_t *par%d_ptr%d_t;' % (k, k, i),
                                   'extern par%d_u16 g_par%d_%d;' % (k, k, i),
                                   'struct late%d_%d { par%d_t inner; par%d_u16 n; };' % (k, i, k, k)]))
        if late:
            case['late_cdef'] = '\n'.join(late)
    elif r2.chance(0.2):
        case['late_cdef'] = 'int late_fn_%d(int, long);\ntypedef struct late_s%d { char c; } late_t%d;' % (
            r2.below(100), r2.below(100), r2.below(100))
    if source is not None and r2.chance(0.15):
        case['embedding'] = 'from %s import ffi\nprint("init %d")\n' % (modname, r2.below(100))
    return case


def build_ffi(cffi_module, case, midway=None):
    """`midway(ffi)`, if given, is called after the first cdef()/set_source() and before the
    remaining declarations arrive (include(), second cdef(), embedding_init_code())"""
    ffi = cffi_module.FFI()
    if case.get('packed'):
        ffi.cdef(case['cdef'], packed=True)
    else:
        ffi.cdef(case['cdef'])
    ffi.set_source(case['name'], case['source'])
    if midway is not None:
        midway(ffi)
    if case.get('parent'):
        par = cffi_module.FFI()
        par.cdef(case['parent']['cdef'])
        par.set_source(case['parent']['name'], None if case['source'] is None else '/* base */')
        ffi.include(par)
    for extra in case.get('more_parents', ()):
        par = cffi_module.FFI()
        par.cdef(extra['cdef'])
        par.set_source(extra['name'], None if case['source'] is None else '/* base */')
        ffi.include(par)
    if case.get('late_cdef'):
        ffi.cdef(case['late_cdef'])
    if case.get('embedding'):
        ffi.embedding_init_code(case['embedding'])
    return ffi
