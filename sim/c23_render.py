"""Renders a list of cdef cases in THIS interpreter (whatever PYTHONHASHSEED it
was started with) after a chosen preceding history, and prints the SHA-256 of
each generated text as a JSON list."""
import sys, os, json, hashlib, io, contextlib
bdir, repo, history = sys.argv[1], sys.argv[2], sys.argv[3]
os.environ['VERIF_REPO'] = repo
sys.path.insert(0, os.path.dirname(os.path.dirname(os.path.abspath(__file__))))
from sim import build, simfs, cdefgen
build.activate(bdir)
import cffi, cffi.recompiler
seam = simfs.install(cffi.recompiler)
cases = json.loads(sys.stdin.read())
keep = []


def emit(ffi, decl, fs, target):
    seam.fs = fs
    try:
        with contextlib.redirect_stdout(io.StringIO()):
            if decl['source'] is None:
                ffi.emit_python_code(target)
            else:
                ffi.emit_c_code(target)
    finally:
        seam.fs = None


def render(decl):
    fs = simfs.SimFS()
    fs.dirs.add(simfs.ROOT + '/o')
    ext = '.py' if decl['source'] is None else '.c'
    target = simfs.ROOT + '/o/x' + ext
    midway = None
    if history == 'emit_midway':
        # the same FFI object is emitted once before its remaining declarations arrive, and once more
        # right before the emission that counts: neither may leave a trace in the final text
        midway = lambda f: emit(f, decl, fs, simfs.ROOT + '/o/early' + ext)
    ffi = cdefgen.build_ffi(cffi, decl, midway)
    if history == 'emit_midway':
        emit(ffi, decl, fs, simfs.ROOT + '/o/again' + ext)
    emit(ffi, decl, fs, target)
    return hashlib.sha256(fs.get(target)).hexdigest()


order = list(range(len(cases)))
if history == 'other_ffis_first':
    for i in range(30):
        f = cffi.FFI()
        f.cdef('typedef struct hist_%d { int a%d; } hist_t%d; int hf%d(hist_t%d *);' % (i, i, i, i, i))
        f.typeof('hist_t%d *' % i)
        keep.append(f)
elif history == 'alloc_shift':
    keep.extend([object() for _ in range(100003)])
    keep.extend([{'k%d' % i: i} for i in range(5000)])
    os.chdir('/')
elif history == 'reverse_order':
    order.reverse()
res = [None] * len(cases)
for i in order:
    res[i] = render(cases[i])
if history == 'twice':
    for i in order:
        again = render(cases[i])
        if again != res[i]:
            res[i] = 'DIFFERS-WITHIN-PROCESS:%s:%s' % (res[i], again)
sys.stdout.write(json.dumps(res))
