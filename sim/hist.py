"""Engine H: single-client history simulator.  The sources of nondeterminism it
owns: *when* the collector runs (gc is disabled, gc.collect() is an injected
event), *when* the last reference to an object disappears (objects live in a
slot table owned by the harness, "drop" is an event), finalizer-time
re-entrancy (gremlin objects in garbage cycles) and resource failures.

This module holds what the H checks share: the liveness model (a reference
graph with explicit cycles), unraisable capture, churn, op-list shrinking.
"""
import gc, sys, weakref, io
from .core import ddmin_list


class Graph(object):
    """Reference-graph model.  Nodes are ints; roots are slots held by the
    harness.  A node dies as soon as it is unreachable from the roots *and*
    not kept by cyclic garbage; cyclic garbage dies at a collect event."""

    def __init__(self):
        self.edges = {}       # node -> set(node)
        self.cyclic = set()   # nodes that are part of a reference cycle of their own
        self.dead = set()
        self.next = 0

    def add(self, edges=(), cyclic=False):
        n = self.next
        self.next += 1
        self.edges[n] = set(edges)
        if cyclic:
            self.cyclic.add(n)
        return n

    def alive(self, n):
        return n in self.edges

    def _closure(self, start):
        seen = set()
        stack = [n for n in start if n in self.edges]
        while stack:
            n = stack.pop()
            if n in seen:
                continue
            seen.add(n)
            for m in self.edges[n]:
                if m in self.edges and m not in seen:
                    stack.append(m)
        return seen

    def settle(self, roots, collect):
        """returns the list of nodes that die now (ascending ids)"""
        reach = self._closure(roots)
        garbage = set(self.edges) - reach
        if not garbage:
            return []
        if collect:
            dying = garbage
        else:
            keep = self._closure([n for n in garbage if n in self.cyclic])
            dying = garbage - keep
        out = sorted(dying)
        for n in out:
            del self.edges[n]
            self.cyclic.discard(n)
            self.dead.add(n)
        return out

    def kill(self, nodes):
        out = sorted(n for n in nodes if n in self.edges)
        for n in out:
            del self.edges[n]
            self.cyclic.discard(n)
            self.dead.add(n)
        return out

    def pending(self, roots):
        """garbage that is waiting for a collect event"""
        reach = self._closure(roots)
        return set(self.edges) - reach


class Unraisable(object):
    """Captures sys.unraisablehook calls (destructors that raise) without
    keeping any reference to the objects involved."""

    def __init__(self):
        self.count = 0
        self.kinds = []
        self._old = None
        self._olderr = None
        self.stderr = io.StringIO()

    def _hook(self, u):
        self.count += 1
        self.kinds.append(getattr(u.exc_type, '__name__', '?'))

    def __enter__(self):
        self._old = sys.unraisablehook
        sys.unraisablehook = self._hook
        self._olderr = sys.stderr
        sys.stderr = self.stderr
        return self

    def __exit__(self, *a):
        sys.unraisablehook = self._old
        sys.stderr = self._olderr


class NoGC(object):
    def __enter__(self):
        self.was = gc.isenabled()
        gc.collect()
        gc.disable()
        # everything that exists now (modules, the harness) is moved to the permanent
        # generation: an injected gc.collect() then only looks at objects of the run
        gc.freeze()

    def __exit__(self, *a):
        gc.collect()
        if self.was:
            gc.enable()


def churn(ffi, rng_n):
    """allocate and free junk to encourage reuse of freed blocks"""
    junk = []
    for i in range(8 + rng_n % 24):
        junk.append(ffi.new('char[]', 16 + (rng_n * 7 + i * 13) % 300))
        junk.append(bytearray(32 + (i * 17) % 200))
    del junk


def shrink_ops(case, key='ops'):
    """generic shrink candidates for an op-list case: drop ops (chunks first)"""
    ops = case[key]
    n = len(ops)
    size = n // 2
    while size >= 1:
        i = 0
        while i < n:
            cand = ops[:i] + ops[i + size:]
            if len(cand) < n:
                yield dict(case, **{key: cand})
            i += size
        size //= 2


def unexpected(exc, op=None):
    """detail text for an exception nobody predicted: every refusal the statement allows is caught
    where the operation is made, so an exception that arrives at the top of a run was raised by an
    operation the reference model accepts -- the implementation and the model disagree"""
    import traceback
    tb = traceback.extract_tb(exc.__traceback__)
    where = ''
    if tb:
        fr = tb[-1]
        where = ' at %s:%d (%s)' % (fr.filename.rsplit('/', 1)[-1], fr.lineno, (fr.line or '').strip()[:80])
    return 'operation %r, which the reference model accepts, raised %s: %s%s' % (
        op, type(exc).__name__, str(exc)[:200], where)
