"""Common machinery: seeds, PRNG, batch driver (fork pool), replay, ddmin,
evidence, known findings, exit codes.

Exit status convention (DESIGN 2.9):  0 ok / 1 VIOLATION / 2 harness error.
"""
import os, sys, json, time, hashlib, signal, mmap, struct, pickle, select, \
    traceback, subprocess, resource

VERIF = os.path.dirname(os.path.dirname(os.path.abspath(__file__)))
REPO = os.environ.get('VERIF_REPO', '/repo')
MASK = (1 << 64) - 1
NCPU = int(os.environ.get('VERIF_WORKERS', '0') or 0) or min(16, os.cpu_count() or 1)


# --------------------------------------------------------------------------
# PRNG: SplitMix64.  One integer decides everything.
# --------------------------------------------------------------------------

def _mix(z):
    z = (z + 0x9E3779B97F4A7C15) & MASK
    z = ((z ^ (z >> 30)) * 0xBF58476D1CE4E5B9) & MASK
    z = ((z ^ (z >> 27)) * 0x94D049BB133111EB) & MASK
    return z ^ (z >> 31)


def derive(*parts):
    """Deterministic 64-bit seed from ints/strings (independent of hash seed)."""
    h = hashlib.blake2b(digest_size=8)
    for p in parts:
        h.update(repr(p).encode() + b'\0')
    return int.from_bytes(h.digest(), 'big')


class PRNG(object):
    __slots__ = ('s',)

    def __init__(self, seed):
        self.s = seed & MASK

    def u64(self):
        self.s = (self.s + 0x9E3779B97F4A7C15) & MASK
        z = self.s
        z = ((z ^ (z >> 30)) * 0xBF58476D1CE4E5B9) & MASK
        z = ((z ^ (z >> 27)) * 0x94D049BB133111EB) & MASK
        return z ^ (z >> 31)

    def below(self, n):
        return self.u64() % n if n > 0 else 0

    def randint(self, a, b):
        return a + self.u64() % (b - a + 1)

    def random(self):
        return (self.u64() >> 11) / float(1 << 53)

    def chance(self, p):
        return self.random() < p

    def choice(self, seq):
        return seq[self.u64() % len(seq)]

    def weighted(self, pairs):
        """pairs: list of (item, weight)"""
        tot = 0
        for _, w in pairs:
            tot += w
        x = self.random() * tot
        for it, w in pairs:
            x -= w
            if x < 0:
                return it
        return pairs[-1][0]

    def shuffle(self, lst):
        for i in range(len(lst) - 1, 0, -1):
            j = self.u64() % (i + 1)
            lst[i], lst[j] = lst[j], lst[i]

    def sample(self, seq, k):
        lst = list(seq)
        self.shuffle(lst)
        return lst[:k]

    def fork(self, tag):
        return PRNG(derive(self.s, tag))


def digest_of(obj):
    """Stable digest of a JSON-able trace."""
    return hashlib.blake2b(json.dumps(obj, sort_keys=True, default=str).encode(),
                           digest_size=8).hexdigest()


# --------------------------------------------------------------------------
# Outcome of one simulated run
# --------------------------------------------------------------------------

class Outcome(object):
    """verdict: 'ok' | 'violation' | 'harness'"""

    def __init__(self):
        self.verdict = 'ok'
        self.clause = None
        self.detail = None
        self.op = None            # index of the op / event at which it failed
        self.digest = ''          # digest of the normalised event log
        self.nontrivial = False
        self.probes = {}
        self.faults = {}
        self.unspecified = {}
        self.steps = 0
        self.schedule = None      # recorded decisions (engines P / C)
        self.sample = None        # compact human-readable trace

    def violate(self, clause, detail, op=None):
        if self.verdict != 'violation':     # first one wins
            self.verdict = 'violation'
            self.clause = clause
            self.detail = detail
            self.op = op
        return self

    def harness(self, detail):
        if self.verdict == 'ok':
            self.verdict = 'harness'
            self.detail = detail
        return self

    def probe(self, name, n=1):
        self.probes[name] = self.probes.get(name, 0) + n

    def fault(self, name, n=1):
        self.faults[name] = self.faults.get(name, 0) + n

    def unspec(self, name, n=1):
        self.unspecified[name] = self.unspecified.get(name, 0) + n

    def as_dict(self):
        return dict(verdict=self.verdict, clause=self.clause, detail=self.detail,
                    op=self.op, digest=self.digest)


class HarnessError(Exception):
    pass


# --------------------------------------------------------------------------
# Base class for a check
# --------------------------------------------------------------------------

class Check(object):
    pid = 'C00'
    level = 'exploration'
    engine = '?'
    quick_runs = 1000
    thorough_budget_s = 900
    chunk = 200                 # runs per forked worker task
    chunk_timeout_s = 180       # a chunk that takes longer is treated as a hang
    env = {}                    # environment the check needs at process start
    rule = ''
    components = {}
    assumptions = []
    hang_clause = None          # clause id reported for a deterministic hang, or None
    crash_clause = None         # clause id reported for a worker that dies, or None
    simulated_time_unit = 'logical steps (cffi reads no clock)'

    def prepare(self, tier):
        """Build from the working tree.  Called once in the parent."""

    def variants(self, tier):
        """list of variant names (build flavours etc.); a run index picks one"""
        return ['default']

    def generate(self, rng, idx, tier):
        raise NotImplementedError

    def execute(self, case):
        raise NotImplementedError

    batched = False

    def execute_many(self, cases):
        return [self.execute(c) for c in cases]

    def shrink_candidates(self, case):
        """yield smaller cases (generic: override)"""
        return iter(())

    def signature(self, case, out):
        """identifies a finding for known_findings.json"""
        return '%s' % (out.clause,)

    def extra_evidence(self, tier, stats):
        return {}

    def post_batch(self, tier, stats):
        """optional extra phases (run in the parent).  Return list of
        (case, Outcome) violations."""
        return []


# --------------------------------------------------------------------------
# ddmin over a list
# --------------------------------------------------------------------------

def ddmin_list(items, test, budget):
    """Classic ddmin: returns a smaller list for which test(list) is True.
    budget is a 1-element list holding remaining re-executions."""
    n = 2
    items = list(items)
    while len(items) >= 1 and budget[0] > 0:
        if len(items) == 1:
            budget[0] -= 1
            if test([]):
                return []
            return items
        chunk = max(1, len(items) // n)
        reduced = False
        i = 0
        while i < len(items) and budget[0] > 0:
            cand = items[:i] + items[i + chunk:]
            budget[0] -= 1
            if test(cand):
                items = cand
                n = max(n - 1, 2)
                reduced = True
            else:
                i += chunk
        if not reduced:
            if chunk == 1:
                break
            n = min(len(items), n * 2)
    return items


# --------------------------------------------------------------------------
# Known findings
# --------------------------------------------------------------------------

def load_known():
    path = os.path.join(VERIF, 'known_findings.json')
    try:
        with open(path) as f:
            data = json.load(f)
    except IOError:
        return []
    return data.get('findings', [])


def known_match(pid, sig):
    for ent in load_known():
        if ent.get('property') == pid and ent.get('status') == 'known' \
                and ent.get('signature') == sig:
            return ent
    return None


# --------------------------------------------------------------------------
# Fork pool with crash / hang attribution
# --------------------------------------------------------------------------

class _Stats(object):
    def __init__(self):
        self.runs = 0
        self.steps = 0
        self.nontrivial_digests = set()
        self.all_digests = set()
        self.probes = {}
        self.faults = {}
        self.unspecified = {}
        self.violations = []     # (idx, case, outdict)
        self.harness = []        # (idx, detail)
        self.crashed_isolated = []
        self.dg = {}
        self.samples = []
        self.variants = {}
        self.wall = 0.0
        self.extra = {}

    def merge_counts(self, dst, src):
        for k, v in src.items():
            dst[k] = dst.get(k, 0) + v

    def merge(self, part):
        self.runs += part['runs']
        self.steps += part['steps']
        self.nontrivial_digests.update(part['nt'])
        self.all_digests.update(part['all'])
        self.merge_counts(self.probes, part['probes'])
        self.merge_counts(self.faults, part['faults'])
        self.merge_counts(self.unspecified, part['unspec'])
        self.merge_counts(self.variants, part['variants'])
        self.violations.extend(part['violations'])
        self.harness.extend(part['harness'])
        self.crashed_isolated.extend(part.get('crashed', []))
        for idx, dg, vd in part.get('dg', []):
            self.dg[idx] = (dg, vd)
        if len(self.samples) < 3:
            self.samples.extend(part['samples'][:3 - len(self.samples)])


def _run_chunk(check, verif_seed, tier, indices, slot, progress):
    part = dict(runs=0, steps=0, nt=set(), all=set(), probes={}, faults={},
                unspec={}, violations=[], harness=[], samples=[], variants={})
    batched = getattr(check, 'batched', False)
    cases = []
    for idx in indices:
        seed = derive(verif_seed, check.pid, tier, idx)
        rng = PRNG(seed)
        case = check.generate(rng, idx, tier)
        case.setdefault('run_index', idx)
        case.setdefault('run_seed', '0x%016x' % seed)
        cases.append(case)
    if batched:
        struct.pack_into('<q', progress, slot * 8, -3)
        try:
            outs = check.execute_many(cases)
        except HarnessError as e:
            outs = [Outcome().harness('HarnessError: %s' % (e,)) for _ in cases]
        except Exception:
            tb = traceback.format_exc()
            outs = [Outcome().harness(tb) for _ in cases]
    isolate = getattr(check, 'isolate', False)
    for n, (idx, case) in enumerate(zip(indices, cases)):
        if batched:
            out = outs[n]
        elif isolate:
            struct.pack_into('<q', progress, slot * 8, idx)
            out = _run_isolated(check, case)
            if isinstance(out, str):
                part.setdefault('crashed', []).append((idx, out, list(indices[:n])))
                continue
        else:
            struct.pack_into('<q', progress, slot * 8, idx)
            try:
                out = check.execute(case)
                int(out.digest or '0', 16)      # flushes an error indicator a finalizer may have left behind
            except HarnessError as e:
                out = Outcome().harness('HarnessError: %s' % (e,))
            except Exception:
                out = Outcome().harness(traceback.format_exc())
        part['runs'] += 1
        part['steps'] += out.steps
        d = int(out.digest or '0', 16)
        part['all'].add(d)
        if out.nontrivial:
            extra = getattr(out, 'nt_digests', None)
            if extra:
                for x in extra:
                    part['nt'].add(int(x, 16))
            else:
                part['nt'].add(d)
        for k, v in out.probes.items():
            part['probes'][k] = part['probes'].get(k, 0) + v
        for k, v in out.faults.items():
            part['faults'][k] = part['faults'].get(k, 0) + v
        for k, v in out.unspecified.items():
            part['unspec'][k] = part['unspec'].get(k, 0) + v
        vname = case.get('variant', 'default')
        part['variants'][vname] = part['variants'].get(vname, 0) + 1
        if os.environ.get('VERIF_DIGESTS'):
            part.setdefault('dg', []).append((idx, out.digest, out.verdict))
        if out.verdict == 'violation':
            if len(part['violations']) < 3:
                if out.schedule is not None:
                    case = dict(case, schedule=out.schedule)
                if getattr(check, 'history_dependent', False):
                    case = dict(case, _prelude=list(indices[:n]))
                part['violations'].append((idx, case, out.as_dict()))
        elif out.verdict == 'harness':
            if len(part['harness']) < 3:
                part['harness'].append((idx, out.detail))
        if len(part['samples']) < 2 and out.sample is not None and out.nontrivial:
            part['samples'].append(out.sample)
    struct.pack_into('<q', progress, slot * 8, -1)
    return part


def _run_isolated(check, case):
    """execute one case in a forked child of this worker: every run starts from the same
    (pristine) process image, so a replay in a fresh process sees the same initial state.
    Returns an Outcome, or a string describing how the child died."""
    rfd, wfd = os.pipe()
    pid = os.fork()
    if pid == 0:
        code = 3
        try:
            os.close(rfd)
            try:
                out = check.execute(case)
            except HarnessError as e:
                out = Outcome().harness('HarnessError: %s' % (e,))
            except Exception:
                out = Outcome().harness(traceback.format_exc())
            extra = getattr(out, 'nt_digests', None)
            d = dict(out.__dict__)
            data = pickle.dumps(d, 2)
            with os.fdopen(wfd, 'wb') as f:
                f.write(data)
            code = 0
        finally:
            os._exit(code)
    os.close(wfd)
    chunks = []
    while True:
        b = os.read(rfd, 1 << 16)
        if not b:
            break
        chunks.append(b)
    os.close(rfd)
    _, status = os.waitpid(pid, 0)
    if os.WIFSIGNALED(status):
        return 'killed by signal %d' % os.WTERMSIG(status)
    if os.WEXITSTATUS(status) != 0 or not chunks:
        return 'exit status %d' % os.WEXITSTATUS(status)
    out = Outcome()
    out.__dict__.update(pickle.loads(b''.join(chunks)))
    return out


def run_batch(check, verif_seed, tier, index_iter, deadline=None, workers=None,
              chunk=None, log=None):
    """Run indices from index_iter in forked children.  Returns _Stats plus
    lists of crashed / hung run indices."""
    workers = workers or NCPU
    chunk = chunk or check.chunk
    stats = _Stats()
    crashed = []     # (idx, signal/exit description)
    hung = []        # idx
    progress = mmap.mmap(-1, 8 * workers)
    live = {}        # pid -> (slot, rfd, indices, start_time, buf)
    free_slots = list(range(workers))
    it = iter(index_iter)
    exhausted = False
    pending_retry = []   # index lists to re-run after a crash
    t0 = time.time()
    stop_new = False
    per_chunk_timeout = float(check.chunk_timeout_s)

    def next_chunk():
        nonlocal exhausted
        if pending_retry:
            return pending_retry.pop()
        if exhausted or stop_new:
            return None
        if deadline is not None and time.time() >= deadline:
            return None
        out = []
        for _ in range(chunk):
            try:
                out.append(next(it))
            except StopIteration:
                exhausted = True
                break
        return out or None

    def spawn(indices):
        slot = free_slots.pop()
        struct.pack_into('<q', progress, slot * 8, -2)
        rfd, wfd = os.pipe()
        sys.stdout.flush()
        sys.stderr.flush()
        pid = os.fork()
        if pid == 0:
            try:
                os.close(rfd)
                signal.signal(signal.SIGINT, signal.SIG_DFL)
                part = _run_chunk(check, verif_seed, tier, indices, slot, progress)
                data = pickle.dumps(part, 2)
                with os.fdopen(wfd, 'wb') as f:
                    f.write(data)
                os._exit(0)
            except BaseException:
                try:
                    traceback.print_exc()
                    sys.stderr.flush()
                finally:
                    os._exit(3)
        os.close(wfd)
        live[pid] = [slot, rfd, indices, time.time(), []]

    while True:
        while free_slots:
            c = next_chunk()
            if c is None:
                break
            spawn(c)
        if not live:
            break
        rfds = [v[1] for v in live.values()]
        ready, _, _ = select.select(rfds, [], [], 1.0)
        for pid in list(live):
            slot, rfd, indices, st, buf = live[pid]
            if rfd in ready:
                while True:
                    data = os.read(rfd, 1 << 20)
                    if not data:
                        break
                    buf.append(data)
                    # keep reading until EOF (child closes on exit)
                # EOF reached
                os.close(rfd)
                _, status = os.waitpid(pid, 0)
                del live[pid]
                free_slots.append(slot)
                cur = struct.unpack_from('<q', progress, slot * 8)[0]
                if os.WIFEXITED(status) and os.WEXITSTATUS(status) == 0 and buf:
                    stats.merge(pickle.loads(b''.join(buf)))
                else:
                    if os.WIFSIGNALED(status):
                        desc = 'killed by signal %d' % os.WTERMSIG(status)
                    else:
                        desc = 'exit status %d' % os.WEXITSTATUS(status)
                    if cur >= 0:
                        crashed.append((cur, desc, list(indices[:indices.index(cur)]) if cur in indices else []))
                        rest = [i for i in indices if i != cur]
                        # re-run the others (before/after), minus the culprit
                        if rest:
                            pending_retry.append(rest)
                    else:
                        stats.harness.append((-1, 'worker died outside a run: ' + desc))
            elif time.time() - st > per_chunk_timeout:
                # hang: attribute to the current index
                cur = struct.unpack_from('<q', progress, slot * 8)[0]
                try:
                    os.kill(pid, signal.SIGKILL)
                except OSError:
                    pass
                os.close(rfd)
                os.waitpid(pid, 0)
                del live[pid]
                free_slots.append(slot)
                if cur >= 0:
                    hung.append((cur, list(indices[:indices.index(cur)]) if cur in indices else []))
                    rest = [i for i in indices if i != cur]
                    if rest:
                        pending_retry.append(rest)
                else:
                    stats.harness.append((-1, 'worker hung outside a run'))
        if len(stats.violations) >= 8 or len(crashed) + len(stats.crashed_isolated) >= 4 or len(hung) >= 2:
            stop_new = True
            pending_retry[:] = []
    stats.wall = time.time() - t0
    crashed.extend(stats.crashed_isolated)
    return stats, crashed, hung


# --------------------------------------------------------------------------
# Running one case in a fresh process (replay confirmation / crash triage)
# --------------------------------------------------------------------------

def replay_in_fresh_process(check, case_path, timeout=120):
    """Returns (status, text): status 'violation', 'ok', 'harness', 'crash', 'hang'"""
    cmd = [sys.executable, '-B', os.path.join(VERIF, 'runcheck.py'), check.pid, '--replay', case_path]
    env = dict(os.environ)
    env['VERIF_REPLAY_QUIET'] = '1'
    try:
        p = subprocess.run(cmd, stdout=subprocess.PIPE, stderr=subprocess.STDOUT,
                           timeout=timeout, env=env)
    except subprocess.TimeoutExpired as e:
        return 'hang', (e.stdout or b'').decode('utf-8', 'replace')[-2000:]
    text = p.stdout.decode('utf-8', 'replace')
    if p.returncode == 1 and 'REPLAY %s clause=' % check.pid in text:
        return 'violation', text
    if p.returncode == 1:
        return 'harness', 'replay process exited 1 without a REPLAY line: ' + text[-1500:]
    if p.returncode == 0:
        return 'ok', text
    if p.returncode < 0:
        return 'crash', 'signal %d\n%s' % (-p.returncode, text[-2000:])
    if p.returncode == 2:
        return 'harness', text
    return 'crash', 'exit %d\n%s' % (p.returncode, text[-2000:])


def write_replay(check, case, outd, tier, verif_seed, tag=None, minimised=None):
    d = os.path.join(VERIF, 'replays')
    os.makedirs(d, exist_ok=True)
    name = '%s-%s-%s.json' % (check.pid, case.get('run_index', 'x'), tag or 'v')
    path = os.path.join(d, name)
    from . import build
    doc = dict(property=check.pid, clause=outd.get('clause'), engine=check.engine,
               tier=tier, verif_seed=verif_seed, observed=outd, case=case,
               minimised=minimised, tree=build.tree_info())
    with open(path, 'w') as f:
        json.dump(doc, f, indent=1, sort_keys=True, default=str)
    return path


def _execute_after_prelude(check, cand, ctx):
    """forked child: prelude, then the candidate; returns an Outcome or None (child died)"""
    verif_seed, tier = ctx
    rfd, wfd = os.pipe()
    pid = os.fork()
    if pid == 0:
        code = 3
        try:
            os.close(rfd)
            run_prelude(check, cand, verif_seed, tier)
            out = check.execute(cand)
            with os.fdopen(wfd, 'wb') as f:
                f.write(pickle.dumps(dict(out.__dict__), 2))
            code = 0
        finally:
            os._exit(code)
    os.close(wfd)
    chunks = []
    while True:
        b = os.read(rfd, 1 << 16)
        if not b:
            break
        chunks.append(b)
    os.close(rfd)
    _, status = os.waitpid(pid, 0)
    if status != 0 or not chunks:
        return None
    out = Outcome()
    out.__dict__.update(pickle.loads(b''.join(chunks)))
    return out


hd_ctx = (0, 'quick')


def minimise_crash(check, case, outd, tier, verif_seed, budget=40, wall=150):
    """shrink a case whose execution kills the process: every candidate is replayed in a
    fresh process (bounded: a crash is already a complete finding, smaller is a courtesy)"""
    t0 = time.time()
    cur = case
    execs = 0
    progress = True
    while progress and execs < budget and time.time() - t0 < wall:
        progress = False
        for cand in check.shrink_candidates(cur):
            if execs >= budget or time.time() - t0 > wall:
                break
            execs += 1
            p = write_replay(check, cand, outd, tier, verif_seed, tag='crash-cand')
            st, _ = replay_in_fresh_process(check, p, timeout=60)
            if st == 'crash':
                cur = cand
                progress = True
                break
    try:
        os.unlink(os.path.join(VERIF, 'replays', '%s-%s-crash-cand.json' % (check.pid, case.get('run_index', 'x'))))
    except OSError:
        pass
    return cur, execs


def minimise_in_child(check, case, outd, timeout=300):
    """The driver never executes the code under test in its own process: minimisation runs
    in a forked child, so that a crash while shrinking cannot take the verdict with it."""
    rfd, wfd = os.pipe()
    sys.stdout.flush()
    pid = os.fork()
    if pid == 0:
        code = 3
        try:
            os.close(rfd)
            signal.alarm(timeout)
            res = minimise(check, case, outd)
            with os.fdopen(wfd, 'wb') as f:
                f.write(pickle.dumps(res, 2))
            code = 0
        except BaseException:
            pass
        finally:
            os._exit(code)
    os.close(wfd)
    chunks = []
    while True:
        b = os.read(rfd, 1 << 16)
        if not b:
            break
        chunks.append(b)
    os.close(rfd)
    _, status = os.waitpid(pid, 0)
    if status != 0 or not chunks:
        return case, outd, 0
    return pickle.loads(b''.join(chunks))


def minimise(check, case, outd, budget=400):
    """Shrink while the same clause is violated.  Uses the check's
    shrink_candidates (a generator that is restarted after each success)."""
    clause = outd['clause']
    hd = getattr(check, 'history_dependent', False) and case.get('_prelude')
    if hd:
        budget = min(budget, 60)
    left = [budget]
    execs = 0
    cur = case
    cur_out = outd
    progress = True
    while progress and left[0] > 0:
        progress = False
        for cand in check.shrink_candidates(cur):
            if left[0] <= 0:
                break
            left[0] -= 1
            execs += 1
            try:
                if hd:
                    o = _execute_after_prelude(check, cand, hd_ctx)
                    if o is None:
                        continue
                else:
                    o = check.execute(cand)
            except Exception:
                continue
            if o.verdict == 'violation' and o.clause == clause:
                if o.schedule is not None:
                    cand = dict(cand, schedule=o.schedule)
                cur = cand
                cur_out = o.as_dict()
                progress = True
                break
    return cur, cur_out, execs


# --------------------------------------------------------------------------
# Top-level driver
# --------------------------------------------------------------------------

def _reexec_with_env(check):
    need = dict(check.env)
    need.setdefault('PYTHONHASHSEED', os.environ.get('VERIF_HASHSEED', '0'))
    changed = False
    for k, v in need.items():
        if os.environ.get(k) != v:
            os.environ[k] = v
            changed = True
    if changed and not os.environ.get('VERIF_REEXEC'):
        os.environ['VERIF_REEXEC'] = '1'
        sys.stdout.flush()
        os.execve(sys.executable, [sys.executable] + sys.argv, os.environ)


def load_replay(path):
    with open(path) as f:
        doc = json.load(f)
    return doc


def run_prelude(check, case, verif_seed, tier):
    """History-dependent checks (process-wide state in the code under test, e.g. the closure
    free list): a run is only reproducible together with the runs that preceded it in its
    worker.  The replay file names them; they are regenerated from their seeds and re-executed."""
    for idx in case.get('_prelude') or []:
        seed = derive(verif_seed, check.pid, tier, idx)
        c = check.generate(PRNG(seed), idx, tier)
        c.setdefault('run_index', idx)
        try:
            check.execute(c)
        except Exception:
            pass


def main_replay(check, path):
    doc = load_replay(path)
    check.prepare('replay')
    case = doc['case']
    run_prelude(check, case, doc.get('verif_seed', 0), doc.get('tier', 'quick'))
    out = check.execute(case)
    quiet = os.environ.get('VERIF_REPLAY_QUIET')
    if out.verdict == 'violation':
        print('REPLAY %s clause=%s op=%s detail=%s' % (check.pid, out.clause, out.op, out.detail))
        print('REPLAY-DIGEST %s' % out.digest)
        if not quiet:
            print('VIOLATION property=%s replay=%s' % (check.pid, path))
        return 1
    if out.verdict == 'harness':
        print('HARNESS-ERROR %s: %s' % (check.pid, out.detail))
        return 2
    print('REPLAY %s: no violation (digest %s)' % (check.pid, out.digest))
    return 0


def main_check(check, tier, verif_seed):
    t0 = time.time()
    global hd_ctx
    hd_ctx = (verif_seed, tier)
    check.prepare(tier)
    t_built = time.time()
    if tier == 'quick':
        n = int(os.environ.get('VERIF_RUNS', '0') or 0) or check.quick_runs
        indices = range(n)
        deadline = None
    else:
        budget = float(os.environ.get('VERIF_BUDGET_S', '0') or 0) or check.thorough_budget_s
        deadline = time.time() + budget
        indices = iter(range(10 ** 12))
    stats, crashed, hung = run_batch(check, verif_seed, tier, indices, deadline)

    violations = []   # (case, outdict)
    harness_msgs = list(stats.harness)

    # crashed / hung runs: triage in a fresh process
    for ent in crashed[:3]:
        idx, desc = ent[0], ent[1]
        seed = derive(verif_seed, check.pid, tier, idx)
        case = check.generate(PRNG(seed), idx, tier)
        case.setdefault('run_index', idx)
        case.setdefault('run_seed', '0x%016x' % seed)
        if getattr(check, 'history_dependent', False) and len(ent) > 2:
            case['_prelude'] = ent[2]
        outd = dict(verdict='violation', clause=check.crash_clause, op=None,
                    detail='worker process died (%s) while executing this run' % desc, digest='')
        path = write_replay(check, case, outd, tier, verif_seed, tag='crash')
        st, text = replay_in_fresh_process(check, path)
        if st == 'crash' and check.crash_clause:
            small, execs = minimise_crash(check, case, outd, tier, verif_seed)
            if small is not case:
                path = write_replay(check, small, outd, tier, verif_seed, tag='crash-min',
                                    minimised=dict(from_size=check_size(case), to_size=check_size(small),
                                                   reexecutions=execs))
                case = small
            violations.append((case, outd, path))
        elif st == 'violation':
            violations.append((case, outd, path))
        else:
            harness_msgs.append((idx, 'worker died (%s); fresh-process replay says %s: %s'
                                 % (desc, st, text[-500:])))
    for idx, hprel in hung[:2]:
        seed = derive(verif_seed, check.pid, tier, idx)
        case = check.generate(PRNG(seed), idx, tier)
        case.setdefault('run_index', idx)
        case.setdefault('run_seed', '0x%016x' % seed)
        if getattr(check, 'history_dependent', False):
            case['_prelude'] = hprel
        outd = dict(verdict='violation', clause=check.hang_clause, op=None,
                    detail='run did not terminate', digest='')
        path = write_replay(check, case, outd, tier, verif_seed, tag='hang')
        st, text = replay_in_fresh_process(check, path, timeout=60)
        if st == 'hang' and check.hang_clause:
            violations.append((case, outd, path))
        elif st == 'violation':
            violations.append((case, outd, path))
        else:
            harness_msgs.append((idx, 'run hung; fresh-process replay says %s' % st))

    # ordinary violations: minimise, write replay, confirm in a fresh process
    seen_sigs = set()
    for idx, case, outd in sorted(stats.violations, key=lambda v: v[0])[:4]:
        o = Outcome(); o.clause = outd['clause']; o.detail = outd['detail']; o.op = outd['op']
        sig0 = check.signature(case, o)
        if sig0 in seen_sigs:
            continue
        seen_sigs.add(sig0)
        small, small_out, execs = minimise_in_child(check, case, outd)
        mini = dict(from_size=check_size(case), to_size=check_size(small), reexecutions=execs)
        path = write_replay(check, small, small_out, tier, verif_seed, tag='min', minimised=mini)
        st, text = replay_in_fresh_process(check, path)
        if st not in ('violation', 'crash'):
            # minimisation unstable: report the unminimised case
            path = write_replay(check, case, outd, tier, verif_seed, tag='raw')
            st2, text2 = replay_in_fresh_process(check, path)
            if st2 not in ('violation', 'crash'):
                harness_msgs.append((idx, 'violation %s did not reproduce in a fresh process '
                                          '(%s / %s): %s' % (outd['clause'], st, st2, outd['detail'])))
                continue
            small, small_out = case, outd
        violations.append((small, small_out, path))

    for case, outd, path in check.post_batch(tier, stats):
        violations.append((case, outd, path))

    # classify against known findings
    reported = 0
    for case, outd, path in violations:
        o = Outcome(); o.clause = outd['clause']; o.detail = outd['detail']; o.op = outd.get('op')
        sig = check.signature(case, o)
        ent = known_match(check.pid, sig)
        if ent is not None:
            print('KNOWN-FINDING: property=%s %s' % (check.pid, ent.get('what', sig)))
        else:
            reported += 1
            print('DETAIL property=%s clause=%s op=%s signature=%s :: %s'
                  % (check.pid, outd['clause'], outd.get('op'), sig, outd['detail']))
            print('VIOLATION property=%s replay=%s' % (check.pid, path))

    wall = time.time() - t0
    write_evidence(check, tier, verif_seed, stats, wall, t_built - t0, reported,
                   len(violations) - reported, harness_msgs)
    if harness_msgs and not reported:
        for idx, msg in harness_msgs[:5]:
            print('HARNESS-ERROR property=%s run=%s: %s' % (check.pid, idx, msg))
        return 2
    if reported:
        return 1
    print('OK property=%s tier=%s runs=%d distinct_nontrivial=%d wall=%.1fs'
          % (check.pid, tier, stats.runs, len(stats.nontrivial_digests), wall))
    return 0


def check_size(case):
    return len(json.dumps(case, default=str))


def evidence_dir():
    """evidence/ describes runs against /repo itself; a run pointed at another checkout
    (VERIF_REPO, sensitivity testing) writes its report beside the build cache instead"""
    if os.path.realpath(REPO) != os.path.realpath('/repo'):
        return os.path.join(VERIF, '.cache', 'evidence-other-tree')
    return os.path.join(VERIF, 'evidence')


def write_evidence(check, tier, verif_seed, stats, wall, build_s, reported, known, harness_msgs):
    os.makedirs(evidence_dir(), exist_ok=True)
    runs = stats.runs
    per_hour = int(runs / stats.wall * 3600) if stats.wall > 0 else 0
    cov = dict(
        evaluations=runs,
        distinct_nontrivial=len(stats.nontrivial_digests),
        distinct_traces=len(stats.all_digests),
        rule=check.rule,
        samples=stats.samples[:3] or ['(no non-trivial sample recorded)'],
        runs_per_hour=per_hour,
        seeds_per_hour=per_hour,
        simulated_time=dict(unit=check.simulated_time_unit, total=stats.steps,
                            mean_per_run=(stats.steps / runs if runs else 0)),
        faults_fired=dict(sorted(stats.faults.items())),
        reach_probes=dict(sorted(stats.probes.items())),
        probes_at_zero=sorted(k for k, v in stats.probes.items() if v == 0),
        unspecified_outcomes=dict(sorted(stats.unspecified.items())),
        variants=dict(sorted(stats.variants.items())),
        components=check.components,
        workers=NCPU,
        build_s=round(build_s, 2),
        batch_wall_s=round(stats.wall, 2),
        known_findings_matched=known,
        harness_errors=[m for _, m in harness_msgs[:5]],
    )
    cov.update(check.extra_evidence(tier, stats))
    cov.update(stats.extra)
    ev = dict(property_id=check.pid, tier=tier, seed=verif_seed, level=check.level,
              coverage=cov, assumptions=list(check.assumptions), wall_s=round(wall, 2),
              violations=reported)
    path = os.path.join(evidence_dir(), '%s.json' % check.pid)
    tmp = path + '.tmp'
    with open(tmp, 'w') as f:
        json.dump(ev, f, indent=1, sort_keys=True, default=str)
    os.rename(tmp, path)


def main(check, argv):
    _reexec_with_env(check)
    verif_seed = int(os.environ.get('VERIF_SEED', '0') or 0)
    print('VERIF_SEED=%d property=%s args=%s' % (verif_seed, check.pid, ' '.join(argv)))
    sys.stdout.flush()
    try:
        if argv and argv[0] == '--replay':
            return main_replay(check, argv[1])
        tier = argv[0] if argv else os.environ.get('VERIF_TIER', 'quick')
        if tier == 'digests':
            # determinism self-test support: per-run digests of the first n runs of the quick stream
            n = int(argv[1])
            os.environ['VERIF_DIGESTS'] = '1'
            check.prepare('quick')
            stats, crashed, hung = run_batch(check, verif_seed, 'quick', range(n))
            out = dict((str(k), v) for k, v in sorted(stats.dg.items()))
            with open(argv[2], 'w') as f:
                json.dump(dict(digests=out, crashed=[c[0] for c in crashed], hung=[h[0] for h in hung],
                               harness=[m for _, m in stats.harness[:3]]), f)
            print('DIGESTS %d runs -> %s' % (len(out), argv[2]))
            return 0
        if tier not in ('quick', 'thorough'):
            print('usage: check <ID> quick|thorough|--replay <file>')
            return 2
        return main_check(check, tier, verif_seed)
    except HarnessError as e:
        print('HARNESS-ERROR property=%s: %s' % (check.pid, e))
        return 2
    except Exception:
        traceback.print_exc()
        print('HARNESS-ERROR property=%s: unexpected exception in driver' % check.pid)
        return 2
