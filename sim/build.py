"""Builds everything from /repo's current working tree into /verif/.cache.

Nothing is imported from the pre-built /repo/src/_cffi_backend*.so: every check
compiles src/c/_cffi_backend.c itself (with the pass-through shim header) and
puts the build directory in front of /repo/src on sys.path.
"""
import os, sys, hashlib, subprocess, sysconfig, shutil, time, json, glob
from .core import VERIF, REPO, HarnessError

CACHE = os.path.join(VERIF, '.cache')
SHIM = os.path.join(VERIF, 'sim', 'c', 'backend_shim.h')
PYINC = sysconfig.get_paths()['include']
EXT_SUFFIX = sysconfig.get_config_var('EXT_SUFFIX')
CACHE_MAX_ENTRIES = 24


def _sha_files(paths, extra=''):
    h = hashlib.sha256()
    for p in sorted(paths):
        h.update(p.encode() + b'\0')
        try:
            with open(p, 'rb') as f:
                h.update(f.read())
        except IOError:
            h.update(b'<missing>')
        h.update(b'\0')
    h.update(extra.encode())
    return h.hexdigest()


def c_sources():
    out = []
    for root, dirs, files in os.walk(os.path.join(REPO, 'src', 'c')):
        if 'libffi_' in root:
            continue
        for f in files:
            if f.endswith(('.c', '.h')):
                out.append(os.path.join(root, f))
    return out


def py_sources():
    d = os.path.join(REPO, 'src', 'cffi')
    return [os.path.join(d, f) for f in os.listdir(d) if f.endswith(('.py', '.h'))]


def sources_sha():
    return _sha_files(c_sources() + py_sources())


def tree_info():
    try:
        head = subprocess.run(['git', '-C', REPO, 'rev-parse', 'HEAD'], stdout=subprocess.PIPE,
                              stderr=subprocess.DEVNULL).stdout.decode().strip()
        dirty = subprocess.run(['git', '-C', REPO, 'status', '--porcelain'], stdout=subprocess.PIPE,
                               stderr=subprocess.DEVNULL).stdout.decode().split('\n')
        dirty = [l[3:] for l in dirty if l.strip()]
    except Exception:
        head, dirty = '?', []
    return dict(repo_head=head, dirty_files=dirty, sources_sha=sources_sha()[:16])


def _prune():
    """bound the cache: drop the least recently used entries beyond CACHE_MAX_ENTRIES, but never one that
    was built or used within the last two hours (another check may be running from it, or still building it)"""
    try:
        ents = [os.path.join(CACHE, e) for e in os.listdir(CACHE)]
    except OSError:
        return
    ents = [e for e in ents if os.path.isdir(e)]
    if len(ents) <= CACHE_MAX_ENTRIES:
        return
    now = time.time()

    def age(e):
        try:
            return now - os.path.getmtime(e)
        except OSError:
            return 0
    old = sorted((e for e in ents if age(e) > 7200), key=age, reverse=True)
    for e in old[:len(ents) - CACHE_MAX_ENTRIES]:
        shutil.rmtree(e, ignore_errors=True)


def cache_dir(kind, key):
    d = os.path.join(CACHE, '%s-%s' % (kind, key[:20]))
    return d


def _run(cmd, cwd=None, what='build'):
    p = subprocess.run(cmd, cwd=cwd, stdout=subprocess.PIPE, stderr=subprocess.STDOUT)
    if p.returncode != 0:
        raise HarnessError('%s failed (exit %d): %s\n%s' % (
            what, p.returncode, ' '.join(cmd), p.stdout.decode('utf-8', 'replace')[-4000:]))
    return p.stdout.decode('utf-8', 'replace')


def _atomic_dir(final, builder):
    """build into a temp dir then rename (concurrent checks may race)"""
    if os.path.isdir(final) and os.path.exists(os.path.join(final, '.done')):
        os.utime(final, None)
        return final
    os.makedirs(CACHE, exist_ok=True)
    tmp = '%s.tmp%d' % (final, os.getpid())
    shutil.rmtree(tmp, ignore_errors=True)
    os.makedirs(tmp)
    try:
        builder(tmp)
        with open(os.path.join(tmp, '.done'), 'w') as f:
            f.write(time.ctime())
        try:
            os.rename(tmp, final)
        except OSError:
            # somebody else finished first
            shutil.rmtree(tmp, ignore_errors=True)
    except BaseException:
        shutil.rmtree(tmp, ignore_errors=True)
        raise
    _prune()
    return final


def backend(use_thread=True, asan=False, opt='-O1'):
    """Build the simulation backend; returns the directory containing
    _cffi_backend<EXT_SUFFIX>."""
    flags = ['-g', opt, '-fPIC', '-shared', '-DFFI_BUILDING=1', '-DHAVE_SYNC_SYNCHRONIZE',
             '-DCFFI_VERIF_SIM', '-fno-strict-aliasing', '-w']
    if use_thread:
        flags.append('-DUSE__THREAD')
    if asan:
        flags += ['-fsanitize=address', '-fno-omit-frame-pointer']
    key = _sha_files(c_sources() + [SHIM], ' '.join(flags))

    def builder(d):
        out = os.path.join(d, '_cffi_backend' + EXT_SUFFIX)
        cmd = ['gcc'] + flags + ['-I', PYINC, '-I', os.path.join(REPO, 'src', 'c'),
                                 '-include', SHIM,
                                 os.path.join(REPO, 'src', 'c', '_cffi_backend.c'),
                                 '-o', out, '-lffi', '-ldl', '-lpthread']
        _run(cmd, what='sim backend build')

    kind = 'be' + ('T' if use_thread else 'N') + ('A' if asan else '')
    return _atomic_dir(cache_dir(kind, key), builder)


def activate(backend_dir):
    """Make `import _cffi_backend` / `import cffi` resolve to the sim build and
    the working-tree package.  Must run before cffi is imported."""
    if '_cffi_backend' in sys.modules or 'cffi' in sys.modules:
        m = sys.modules.get('_cffi_backend')
        if m is not None and os.path.dirname(os.path.abspath(m.__file__)) == os.path.abspath(backend_dir):
            return
        raise HarnessError('cffi imported before build.activate()')
    src = os.path.join(REPO, 'src')
    sys.path[:] = [p for p in sys.path if os.path.abspath(p or '.') != src]
    sys.path.insert(0, src)
    sys.path.insert(0, backend_dir)
    import _cffi_backend
    if os.path.dirname(os.path.abspath(_cffi_backend.__file__)) != os.path.abspath(backend_dir):
        raise HarnessError('wrong _cffi_backend imported: %s' % _cffi_backend.__file__)
    import cffi
    if not os.path.abspath(cffi.__file__).startswith(src):
        raise HarnessError('wrong cffi package imported: %s' % cffi.__file__)


def asan_runtime():
    p = subprocess.run(['gcc', '-print-file-name=libasan.so'], stdout=subprocess.PIPE)
    return p.stdout.decode().strip()


def helper_module(name, cdef, source, backend_dir, extra_key='', libs=(), cflags=(),
                  source_none=False, embedding=None):
    """Generate an out-of-line module with the cffi UNDER TEST and compile it
    with plain gcc.  Returns the directory holding <name><EXT_SUFFIX>.  Runs
    the generation in a subprocess so the parent need not import cffi yet."""
    key = _sha_files(c_sources() + py_sources() + [SHIM],
                     json.dumps([name, cdef, source, extra_key, list(libs), list(cflags), source_none]))

    def builder(d):
        gen = os.path.join(d, 'gen_%s.py' % name)
        with open(gen, 'w') as f:
            f.write("import sys\nsys.path.insert(0, %r)\nsys.path.insert(0, %r)\n"
                    "import cffi\nffi = cffi.FFI()\nffi.cdef(%r)\n"
                    % (os.path.join(REPO, 'src'), backend_dir, cdef))
            if source_none:
                f.write("ffi.set_source(%r, None)\nffi.emit_python_code(%r)\n"
                        % (name, os.path.join(d, name + '.py')))
            else:
                f.write("ffi.set_source(%r, %r)\nffi.emit_c_code(%r)\n"
                        % (name, source, os.path.join(d, name + '.c')))
        _run([sys.executable, gen], what='helper generation (%s)' % name)
        if not source_none:
            out = os.path.join(d, name + EXT_SUFFIX)
            cmd = ['gcc', '-g', '-O1', '-fPIC', '-shared', '-w', '-I', PYINC,
                   '-I', os.path.join(REPO, 'src', 'cffi')] + list(cflags) + \
                  [os.path.join(d, name + '.c'), '-o', out] + list(libs)
            _run(cmd, what='helper compile (%s)' % name)

    return _atomic_dir(cache_dir('h_' + name, key), builder)


def plain_shared_lib(name, source, extra_key=''):
    key = hashlib.sha256((name + source + extra_key).encode()).hexdigest()

    def builder(d):
        c = os.path.join(d, name + '.c')
        with open(c, 'w') as f:
            f.write(source)
        _run(['gcc', '-g', '-O1', '-fPIC', '-shared', '-w', c, '-o',
              os.path.join(d, 'lib%s.so' % name)], what='test library compile')

    return _atomic_dir(cache_dir('lib_' + name, key), builder)


EMBED_DIR = os.path.join(VERIF, 'sim', 'c', 'embed')

_EMBED_GEN = r'''
import sys
sys.path.insert(0, %(src)r)
sys.path.insert(0, %(bdir)r)
import cffi
out = %(out)r
ffi = cffi.FFI()
ffi.embedding_api("int f(int x, int y); typedef struct { long a; long b; } pair_t; pair_t g(int x);")
ffi.embedding_init_code("INIT_A = 1")
ffi.set_source("libA", "typedef struct { long a; long b; } pair_t;\nint A_start(void) { return cffi_start_python(); }")
ffi.emit_c_code(out + "/libA.c")
ffi = cffi.FFI()
ffi.embedding_api("long h(long x);")
ffi.embedding_init_code("INIT_B = 1")
ffi.set_source("libB", "int B_start(void) { return cffi_start_python(); }")
ffi.emit_c_code(out + "/libB.c")
'''


def embed_sim():
    """Engine C executable: real generated embedding modules + stub CPython +
    coroutine scheduler.  Returns the path of the executable."""
    files = [os.path.join(EMBED_DIR, f) for f in ('c28sim.c', 'seams.h', 'shadow/assert.h')]
    key = _sha_files(py_sources() + files, 'embed-v1')
    bdir = backend(True)

    def builder(d):
        gen = os.path.join(d, 'gen.py')
        with open(gen, 'w') as f:
            f.write(_EMBED_GEN % dict(src=os.path.join(REPO, 'src'), bdir=bdir, out=d))
        _run([sys.executable, gen], what='embedding module generation')
        objs = []
        for lib in ('libA', 'libB'):
            o = os.path.join(d, lib + '.o')
            _run(['gcc', '-g', '-O1', '-w', '-c', '-DWITH_THREAD=1',
                  '-I', os.path.join(EMBED_DIR, 'shadow'), '-I', PYINC,
                  '-I', os.path.join(REPO, 'src', 'cffi'),
                  '-include', os.path.join(EMBED_DIR, 'seams.h'),
                  os.path.join(d, lib + '.c'), '-o', o], what='compile generated %s.c' % lib)
            objs.append(o)
        _run(['gcc', '-g', '-O1', '-w', '-I', PYINC, os.path.join(EMBED_DIR, 'c28sim.c')] + objs +
             ['-o', os.path.join(d, 'c28sim')], what='link c28sim')

    return os.path.join(_atomic_dir(cache_dir('embed', key), builder), 'c28sim')
