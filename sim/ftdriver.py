"""Foreign-thread driver for engine P (DESIGN appendix C): threads NOT created by Python
that call cffi callbacks, scheduled one at a time by the baton scheduler.

The C side (a helper extension generated and compiled from the cffi under test) owns a
table of pthreads running a mailbox loop:   on_idle(id)  ->  take command  ->  run it.
`on_idle` is itself a cffi callback in which the thread parks (in Python, on its client's
`go` lock) until the scheduler hands it the baton.
"""
import _thread, threading
from . import build
from .core import HarnessError
from . import pysched

CDEF = """
int ft_start(int id);
int ft_join(int id);
void ft_post(int id, int cmd, int arg, int n, int kind);
int ft_result(int id);
int ft_ncalls(int id);
int ft_seen_after(int id);
void ft_arm_atexit(void);
int ft_is_waiting(int id);
int ft_oneshot(int (*cb)(int, int), int pre, int xp, int *seen_after);
void ft_set_gate_fn(uintptr_t fn);
int ft_gated_pair(int (*cb)(int, int), int who_x, int who_y, int pre_x, int pre_y, int xp_x, int xp_y, int first, int warm_x, int warm_y, int *out);
void ft_set_callbacks(int (*on_idle)(int), int (*cb)(int, int));
int count_tstates(void);
int call_cb_from_here(int id, int arg, int kind);
int nested_entry(int id, int arg);
extern "Python" int xp_cb(int, int);
"""

SRC = r"""
#include <pthread.h>
#include <semaphore.h>
#include <stdint.h>
#include <stdlib.h>
#include <unistd.h>
#include <errno.h>
#define MAXT 64
#define CMD_CALL 1
#define CMD_EXIT 2
#define CMD_BLOCK 3      /* block in C (no Python involved) until the libc atexit handler joins us */
static sem_t exit_sem[MAXT];
static volatile int waiting[MAXT];
typedef struct { pthread_t th; volatile int cmd, arg, n, kind; volatile int result, ncalls, seen_after; int started; } ft_t;
static ft_t fts[MAXT];
static int (*g_on_idle)(int);
static int (*g_cb)(int, int);
static int xp_cb(int, int);

/* kind 0: libffi callback, 1: extern "Python", 2: nested C -> Python -> C -> Python */
int nested_entry(int id, int arg) { return g_cb(id, arg + 1000000); }

int call_cb_from_here(int id, int arg, int kind)
{
    if (kind >= 5) {
        /* kind 5 / 6: the C caller brackets the callback with its own PyGILState_Ensure/Release, so
           the callback is entered by a thread that already holds the GIL (like a C library that
           also uses the CPython API) */
        PyGILState_STATE st = PyGILState_Ensure();
        int r = (kind == 6) ? xp_cb(id, arg) : g_cb(id, arg);
        PyGILState_Release(st);
        return r;
    }
    if (kind == 1) return xp_cb(id, arg);
    return g_cb(id, arg);
}

static void *ft_main(void *p)
{
    int id = (int)(intptr_t)p, i;
    for (;;) {
        g_on_idle(id);                      /* parks in Python until scheduled */
        if (fts[id].cmd == CMD_EXIT) break;
        if (fts[id].cmd == CMD_BLOCK) { waiting[id] = 1; sem_wait(&exit_sem[id]); break; }
        if (fts[id].cmd == CMD_CALL) {
            for (i = 0; i < fts[id].n; i++) {
                if (fts[id].kind == 3 || fts[id].kind == 4) {   /* errno-carrying call (C22): kind 3 libffi, 4 extern "Python" */
                    errno = fts[id].arg;
                    fts[id].result = call_cb_from_here(id, fts[id].arg, fts[id].kind - 3);
                    fts[id].seen_after = errno;
                }
                else
                    fts[id].result = call_cb_from_here(id, fts[id].arg + i, fts[id].kind);
                fts[id].ncalls++;
            }
        }
        fts[id].cmd = 0;
    }
    return NULL;
}
int ft_start(int id)
{
    if (id < 0 || id >= MAXT || fts[id].started) return -1;
    fts[id].started = 1; fts[id].cmd = 0; fts[id].ncalls = 0;
    waiting[id] = 0; sem_init(&exit_sem[id], 0, 0);
    return pthread_create(&fts[id].th, NULL, ft_main, (void *)(intptr_t)id);
}
int ft_join(int id) { int r = pthread_join(fts[id].th, NULL); fts[id].started = 0; return r; }
void ft_post(int id, int cmd, int arg, int n, int kind)
{ fts[id].arg = arg; fts[id].n = n; fts[id].kind = kind; fts[id].cmd = cmd; }
int ft_result(int id) { return fts[id].result; }
int ft_ncalls(int id) { return fts[id].ncalls; }
int ft_seen_after(int id) { return fts[id].seen_after; }
void ft_set_callbacks(int (*on_idle)(int), int (*cb)(int, int)) { g_on_idle = on_idle; g_cb = cb; }
int ft_is_waiting(int id) { return waiting[id]; }
/* the way a C library tears down its worker pool: from a libc atexit handler, i.e. AFTER
   Py_Finalize() in a normal `python script.py` run */
static void ft_atexit_join(void)
{
    int i;
    for (i = 0; i < MAXT; i++)
        if (waiting[i]) { sem_post(&exit_sem[i]); pthread_join(fts[i].th, NULL); waiting[i] = 0; }
    { ssize_t w = write(2, "ATEXIT-JOINED\n", 14); (void)w; }
}
void ft_arm_atexit(void) { static int armed; if (!armed) { armed = 1; atexit(ft_atexit_join); } }

/* a thread whose FIRST (and only) contact with cffi is one errno-carrying callback */
typedef struct { int (*cb)(int, int); int pre, xp, seen_after, result; } oneshot_t;
static void *oneshot_main(void *p)
{
    oneshot_t *o = (oneshot_t *)p;
    errno = o->pre;
    o->result = o->xp ? xp_cb(-99, o->pre) : o->cb(-99, o->pre);
    o->seen_after = errno;
    return NULL;
}
int ft_oneshot(int (*cb)(int, int), int pre, int xp, int *seen_after)
{
    pthread_t t; oneshot_t o;
    o.cb = cb; o.pre = pre; o.xp = xp; o.seen_after = -1; o.result = -1;
    if (pthread_create(&t, NULL, oneshot_main, &o) != 0) return -2;
    pthread_join(t, NULL);
    *seen_after = o.seen_after;
    return o.result;
}

/* Two brand-new foreign threads enter a callback; each is held at the backend's gate right
   before it acquires the GIL (i.e. after everything the callback entry point does without the
   GIL), then they are let through one after the other in the requested order. */
static void (*g_arm_gate)(void *, void *);
void ft_set_gate_fn(uintptr_t fn) { g_arm_gate = (void (*)(void *, void *))fn; }
typedef struct { int (*cb)(int, int); int who, pre, xp, warm, seen_after, result; sem_t *arrived, *gate; } gated_t;
static void *gated_main(void *p)
{
    gated_t *o = (gated_t *)p;
    if (o->warm != 0) {          /* an ordinary callback first: the thread already has its thread state at the gate */
        errno = 0;
        if (o->xp) xp_cb(o->warm, o->pre); else o->cb(o->warm, o->pre);
    }
    errno = o->pre;
    g_arm_gate(o->arrived, o->gate);
    o->result = o->xp ? xp_cb(o->who, o->pre) : o->cb(o->who, o->pre);
    o->seen_after = errno;
    return NULL;
}
int ft_gated_pair(int (*cb)(int, int), int who_x, int who_y, int pre_x, int pre_y, int xp_x, int xp_y, int first, int warm_x, int warm_y, int *out)
{
    pthread_t tx, ty; sem_t arrived, gx, gy; gated_t x, y;
    if (g_arm_gate == NULL) return -1;
    sem_init(&arrived, 0, 0); sem_init(&gx, 0, 0); sem_init(&gy, 0, 0);
    x.cb = cb; x.who = who_x; x.pre = pre_x; x.xp = xp_x; x.warm = warm_x; x.arrived = &arrived; x.gate = &gx; x.result = x.seen_after = -1;
    y.cb = cb; y.who = who_y; y.pre = pre_y; y.xp = xp_y; y.warm = warm_y; y.arrived = &arrived; y.gate = &gy; y.result = y.seen_after = -1;
    pthread_create(&tx, NULL, gated_main, &x);
    sem_wait(&arrived);                       /* X is past the callback entry, not yet holding the GIL */
    pthread_create(&ty, NULL, gated_main, &y);
    sem_wait(&arrived);                       /* Y too */
    if (first == 0) { sem_post(&gx); pthread_join(tx, NULL); sem_post(&gy); pthread_join(ty, NULL); }
    else            { sem_post(&gy); pthread_join(ty, NULL); sem_post(&gx); pthread_join(tx, NULL); }
    out[0] = x.result; out[1] = x.seen_after; out[2] = y.result; out[3] = y.seen_after;
    return 0;
}

/* number of PyThreadStates of the current interpreter (declared by hand: the generated
   module is compiled with Py_LIMITED_API) */
PyAPI_FUNC(PyInterpreterState *) PyInterpreterState_Get(void);
PyAPI_FUNC(PyThreadState *) PyInterpreterState_ThreadHead(PyInterpreterState *);
PyAPI_FUNC(PyThreadState *) PyThreadState_Next(PyThreadState *);
int count_tstates(void)
{
    int n = 0;
    PyGILState_STATE st = PyGILState_Ensure();     /* cffi released the GIL around this call */
    PyThreadState *ts = PyInterpreterState_ThreadHead(PyInterpreterState_Get());
    while (ts) { n++; ts = PyThreadState_Next(ts); }
    PyGILState_Release(st);
    return n;
}
"""

MAXT = 64


def build_helper(backend_dir):
    return build.helper_module('_verif_ft', CDEF, SRC, backend_dir, libs=['-lpthread'], cflags=['-pthread'])


class Foreign(object):
    def __init__(self, fid, client):
        self.fid = fid
        self.client = client
        self.ident = None
        self.ready = _thread.allocate_lock()
        self.ready.acquire()
        self.alive = False
        self.exited = False
        self.registered = False


class Driver(object):
    """one per run"""

    def __init__(self, mod, sched, body, on_register=None, first_id=0):
        self.mod = mod
        self.lib = mod.lib
        self.ffi = mod.ffi
        self.sched = sched
        self.body = body                  # body(who, arg) -> int ; runs inside the callback under test
        self.on_register = on_register    # on_register(F): first on_idle of a new foreign thread
        self.fts = {}
        self.next_id = first_id
        self.violation = None
        drv = self

        @self.ffi.callback("int(int)")
        def on_idle(fid):
            try:
                return drv._on_idle(fid)
            except BaseException as e:          # never let anything escape into C
                drv.violation = drv.violation or ('harness', 'on_idle raised %r' % (e,))
                return -1

        @self.ffi.callback("int(int, int)", error=-424242)
        def cb(who, arg):
            return drv.body(who, arg)

        @self.ffi.def_extern(error=-424242)
        def xp_cb(who, arg):
            return drv.body(who, arg)

        self._keep = (on_idle, cb)
        self.cb = cb
        self.lib.ft_set_callbacks(on_idle, cb)
        import ctypes, _cffi_backend
        shim = ctypes.PyDLL(_cffi_backend.__file__)
        self.lib.ft_set_gate_fn(ctypes.cast(shim.cffi_verif_arm_gate, ctypes.c_void_p).value)

    def gated_pair(self, who_x, who_y, pre_x, pre_y, xp_x, xp_y, first, warm_x=0, warm_y=0):
        """two brand-new foreign threads enter the callback; both are held right before they take the GIL,
        then let through in the given order.  Returns (result_x, errno_after_x, result_y, errno_after_y)."""
        out4 = self.ffi.new('int[4]')
        r = self.lib.ft_gated_pair(self.cb, who_x, who_y, pre_x, pre_y, xp_x, xp_y, first, warm_x, warm_y, out4)
        if r != 0:
            raise HarnessError('gated pair helper returned %d' % r)
        return out4[0], out4[1], out4[2], out4[3]

    # ---- runs in the foreign thread ----
    def _on_idle(self, fid):
        F = self.fts[fid]
        s = self.sched
        if not F.registered:
            F.registered = True
            F.ident = _thread.get_ident()
            F.client.ident = F.ident
            s.by_ident[F.ident] = F.client
            if self.on_register is not None:
                self.on_register(F)
            F.client.status = pysched.IDLE
            F.ready.release()                 # the starter may go on
            F.client.go.acquire()             # park until scheduled (or torn down)
            return 0
        # a command has completed
        s.wake(('ft', fid))
        s.idle('ft-idle')
        return 0

    # ---- called by the holder (a Python controller client) ----
    def start(self):
        if self.next_id >= MAXT:
            raise HarnessError('foreign thread table exhausted')
        fid = self.next_id
        self.next_id += 1
        c = self.sched.add_client(None, foreign=True)
        c.status = pysched.NEW
        F = Foreign(fid, c)
        self.fts[fid] = F
        F.alive = True
        r = self.lib.ft_start(fid)
        if r != 0:
            raise HarnessError('pthread_create failed: %d' % r)
        F.ready.acquire()                     # the new thread registers and parks; we do nothing meanwhile
        return F

    def post_call(self, F, arg, n, kind):
        self.lib.ft_post(F.fid, 1, arg, n, kind)
        F.client.status = pysched.RUNNABLE

    def busy(self, F):
        return F.client.status != pysched.IDLE

    def wait_idle(self, F):
        while self.busy(F):
            self.sched.block(('ft', F.fid), 'wait-ft')

    def exit(self, F):
        """F must be idle.  Post EXIT, release it directly, join (the pthread key destructor has run
        when this returns)."""
        self.lib.ft_post(F.fid, 2, 0, 0, 0)
        F.client.status = pysched.DONE
        F.alive = False
        F.exited = True
        self.sched.by_ident.pop(F.ident, None)
        F.client.go.release()
        r = self.lib.ft_join(F.fid)
        if r != 0:
            raise HarnessError('pthread_join failed: %d' % r)

    def teardown(self):
        """after the run: force every foreign thread that is still parked to exit"""
        for fid, F in sorted(self.fts.items()):
            if F.alive and F.registered and F.client.status == pysched.IDLE:
                try:
                    self.exit(F)
                except Exception:
                    pass
        self.lib.ft_set_callbacks(self.ffi.NULL, self.ffi.NULL)
