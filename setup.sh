#!/bin/sh
# MANIFEST.setup_cmd: build the private simulation builds once, offline.
cd "$(dirname "$0")" || exit 2
PY=${VERIF_PYTHON:-/venv/bin/python}
exec "$PY" -B - <<'PYEOF'
import sys
sys.path.insert(0, '.')
from sim import build
print(build.backend(True))
print(build.backend(False))
PYEOF
