import sys, os, importlib
HERE = os.path.dirname(os.path.abspath(__file__))
sys.path.insert(0, HERE)
# never let the pre-built /repo backend or the editable install shadow the sim build
sys.dont_write_bytecode = True


def main():
    if len(sys.argv) < 2:
        print('usage: check <ID> quick|thorough|--replay <file>')
        return 2
    pid = sys.argv[1].upper()
    try:
        mod = importlib.import_module('checks.%s' % pid.lower())
    except ImportError as e:
        print('HARNESS-ERROR: no check for %s (%s)' % (pid, e))
        return 2
    from sim import core
    return core.main(mod.CHECK, sys.argv[2:])


if __name__ == '__main__':
    sys.exit(main())
