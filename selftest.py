#!/usr/bin/env python3
"""Self-tests of the verification machinery.

  selftest.py determinism [n] [ids...]   same seeds: twice, under another PYTHONHASHSEED in a fresh
                                         interpreter, and with another worker count; event-log
                                         digests must be identical
  selftest.py sensitivity [ids...]       planted, test-suite-silent bugs in a scratch worktree of
                                         /repo (outside /repo and /verif, removed afterwards); each
                                         must be reported by the quick check
Results are appended to selftest/RESULTS.md.  Exit 0 = all good, 2 = a self-test failed.
"""
import os, sys, json, subprocess, time, tempfile, shutil

HERE = os.path.dirname(os.path.abspath(__file__))
ALL = ['C16', 'C19', 'C21', 'C22', 'C23', 'C26', 'C27', 'C28', 'C29', 'C35', 'C36', 'C37']
N_DEFAULT = {'C16': 400, 'C19': 400, 'C21': 400, 'C22': 300, 'C23': 24, 'C26': 300, 'C27': 400, 'C28': 5000,
             'C29': 150, 'C35': 1000, 'C36': 200, 'C37': 600}


def digests(pid, n, env_extra, tag):
    out = os.path.join(HERE, '.cache', 'selftest-%s-%s.json' % (pid, tag))
    os.makedirs(os.path.dirname(out), exist_ok=True)
    env = dict(os.environ)
    env.update(env_extra)
    env.pop('VERIF_REEXEC', None)
    p = subprocess.run([os.path.join(HERE, 'check'), pid, 'digests', str(n), out], env=env,
                       stdout=subprocess.PIPE, stderr=subprocess.STDOUT, timeout=1800)
    if p.returncode != 0:
        raise RuntimeError('%s digests run failed: %s' % (pid, p.stdout.decode()[-800:]))
    with open(out) as f:
        d = json.load(f)
    os.unlink(out)
    return d


def determinism(ids, nmul=1.0):
    ok = True
    lines = []
    for pid in ids:
        n = max(8, int(N_DEFAULT[pid] * nmul))
        t0 = time.time()
        a = digests(pid, n, {}, 'a')
        b = digests(pid, n, {}, 'b')
        c = digests(pid, n, {'VERIF_HASHSEED': '12345', 'PYTHONHASHSEED': '12345'}, 'c')
        d = digests(pid, n, {'VERIF_WORKERS': '3'}, 'd')
        bad = []
        for k in a['digests']:
            vals = [x['digests'].get(k) for x in (a, b, c, d)]
            if any(v != vals[0] for v in vals):
                bad.append((k, vals))
        extra = [x for x in (a, b, c, d) if x['crashed'] or x['hung'] or x['harness']]
        status = 'OK' if not bad and not extra and len(a['digests']) == n else 'FAIL'
        if status != 'OK':
            ok = False
        line = '%s determinism: %d seeds x 4 configurations (twice / PYTHONHASHSEED=12345 / 3 workers): %s%s (%.0fs)' % (
            pid, n, status, ('  first mismatch: %r' % (bad[0],)) if bad else '', time.time() - t0)
        if extra:
            line += '  harness problems: %r' % ([(x['crashed'], x['hung'], x['harness']) for x in extra][:1],)
        print(line)
        sys.stdout.flush()
        lines.append(line)
        if bad:
            print('HARNESS-NONDETERMINISM engine-of=%s seed-index=%s' % (pid, bad[0][0]))
    return ok, lines


# planted bugs: (property, name, file, old, new)
PLANTED = [
    ('C26', 'py: drop the re-check under the lock', 'src/cffi/api.py',
     "            x = self._init_once_cache[tag]\n            if x[0]:\n                return x[1]\n            # Call the function", "            # Call the function"),
    ('C26', 'c: never see the result that arrived while waiting', 'src/c/ffi_obj.c',
     "    x = PyDict_GetItem(cache, tag);\n    if (x != NULL && PyTuple_GET_ITEM(x, 0) == Py_True) {", "    x = NULL;\n    if (x != NULL && PyTuple_GET_ITEM(x, 0) == Py_True) {"),
    ('C26', 'c: lock not released when the initializer raises', 'src/c/ffi_obj.c',
     "    PyThread_release_lock(lock);\n    Py_DECREF(lockobj);\n    return res;", "    if (res != NULL) PyThread_release_lock(lock);\n    Py_DECREF(lockobj);\n    return res;"),
    ('C28', 'drop memset of the result after failed init', 'src/cffi/_embedding.h',
     "        memset(args, 0, externpy->size_of_result);\n", ""),
    ('C28', 'switch _cffi_call_python before initialization', 'src/cffi/_embedding.h',
     "        called = 1;  /* invoke", "        called = 1; _cffi_call_python = (_cffi_call_python_fnptr)_cffi_call_python_org; /* invoke"),
    ('C28', 'drop PyEval_SaveThread', 'src/cffi/_embedding.h', "        PyEval_SaveThread();  /* release the GIL */\n", ""),
    ('C28', 'non-recursive start-up mutex', 'src/cffi/_embedding.h',
     "        pthread_mutexattr_settype(&attr, PTHREAD_MUTEX_RECURSIVE);\n", ""),
    ('C22', 'errno shadow not thread-local', 'src/c/misc_thread_common.h',
     "static __thread int cffi_saved_errno = 0;", "static int cffi_saved_errno = 0;"),
    ('C22', 'callback does not save errno on entry', 'src/c/_cffi_backend.c',
     "                            void *userdata)\n{\n    save_errno();\n    {", "                            void *userdata)\n{\n    {"),
    ('C22', 'extern "Python": entry errno parked in a static until the GIL is held', 'src/c/call_python.c',
     ["    save_errno();\n\n    /* We need the infotuple here.", "        PyGILState_STATE state = gil_ensure();\n        if (externpy->reserved1 != _current_interp_key()) {"],
     ["    static int entry_errno; entry_errno = errno;\n\n    /* We need the infotuple here.", "        PyGILState_STATE state = gil_ensure(); errno = entry_errno; save_errno();\n        if (externpy->reserved1 != _current_interp_key()) {"]),
    ('C22', 'callback: errno handed back only when the GIL had to be taken', 'src/c/_cffi_backend.c',
     "        general_invoke_callback(1, result, (char *)args, userdata);\n        gil_release(state);\n    }\n    restore_errno();",
     "        general_invoke_callback(1, result, (char *)args, userdata);\n        gil_release(state);\n        if (state != PyGILState_UNLOCKED) return;\n    }\n    restore_errno();"),
    ('C36', 'thread state not pinned', 'src/c/misc_thread_common.h',
     "    tls->local_thread_canary = canary;\n    tstate->gilstate_counter++;", "    tls->local_thread_canary = canary;"),
    ('C36', 'zombies never reclaimed', 'src/c/misc_thread_common.h',
     "    /* first free the zombies, if any */\n    thread_canary_free_zombies();", "    /* first free the zombies, if any */"),
    ('C23', 'write the target in place', 'src/cffi/recompiler.py',
     "        tmp_file = '%s.~%d' % (target_file, os.getpid())\n        with open(tmp_file, 'w') as f1:\n            f1.write(output)\n        try:\n            os.rename(tmp_file, target_file)\n        except OSError:\n            os.unlink(target_file)\n            os.rename(tmp_file, target_file)\n        return True",
     "        with open(target_file, 'w') as f1:\n            f1.write(output)\n        return True"),
    ('C23', 'compare without the extra byte', 'src/cffi/recompiler.py',
     "if f1.read(len(expected) + 1) != expected:", "if f1.read(len(expected)) != expected:"),
    ('C23', 'hash-ordered declarations', 'src/cffi/recompiler.py',
     "all_decls = sorted(self._typesdict, key=str)", "all_decls = sorted(self._typesdict, key=hash)"),
    ('C21', 'release() does not release the buffer', 'src/c/_cffi_backend.c',
     "            view = ((CDataObject_frombuf *)cd)->bufferview;\n            PyBuffer_Release(view);\n            break;",
     "            view = ((CDataObject_frombuf *)cd)->bufferview;\n            break;"),
    ('C21', 'gc(x, None) leaves the destructor armed', 'src/c/_cffi_backend.c',
     "\tPy_CLEAR(((CDataObject_gcp *)origobj)->destructor);\n\tPy_RETURN_NONE;", "\tPy_RETURN_NONE;"),
    ('C21', 'failed initializer leaks the allocation', 'src/c/_cffi_backend.c',
     "              (ct->ct_flags & CT_POINTER) ? ct->ct_itemdescr : ct, init) < 0) {\n            Py_DECREF(cd);\n            return NULL;",
     "              (ct->ct_flags & CT_POINTER) ? ct->ct_itemdescr : ct, init) < 0) {\n            return NULL;"),
    ('C27', 'dead cache entry removed without liveness re-check', 'src/c/_cffi_backend.c',
     "        err = PyWeakref_GetRef(wr, &tmp);\n        if (err == 0) {", "        err = 0;\n        if (err == 0) {"),
    ('C29', 'closure pushed on the free list twice on the error path', 'src/c/_cffi_backend.c',
     "    else\n        Py_DECREF(cd);\n    Py_XDECREF(infotuple);\n    return NULL;\n}\n#if defined(__clang__)\n#  pragma clang diagnostic pop",
     "    else {\n        cffi_closure_free(closure);\n        Py_DECREF(cd);\n    }\n    Py_XDECREF(infotuple);\n    return NULL;\n}\n#if defined(__clang__)\n#  pragma clang diagnostic pop"),
    ('C29', 'MAP_FAILED ignored', 'src/c/malloc_closure.h',
     "    if (item == (void *)MAP_FAILED)\n        return;", "    if (item == NULL)\n        return;"),
    ('C37', 'out-of-line: dict not cleared on close', 'src/c/cdlopen.c', "        PyDict_Clear(lib->l_dict);\n", ""),
    ('C37', 'out-of-line: handle not nulled on close', 'src/c/cdlopen.c', "        lib->l_libhandle = NULL;\n", ""),
    ('C35', '-D value split at every =', 'src/cffi/pkgconfig.py',
     'return tuple(x.split("=", 1))', 'return tuple(x.split("="))[:2]'),
    ('C35', 'death by signal not an error', 'src/cffi/pkgconfig.py', "if pc.returncode != 0:", "if pc.returncode > 0:"),
    ('C16', 'index == length accepted', 'src/c/_cffi_backend.c',
     "        if (i >= get_array_length(cd)) {", "        if (i > get_array_length(cd)) {"),
    ('C16', 'superfluous items accepted', 'src/c/_cffi_backend.c',
     "        Py_DECREF(item);\n        PyErr_Format(PyExc_ValueError,\n                     \"got more than %zd values to unpack\", length);",
     "        Py_DECREF(item);"),
    ('C19', 'memmove as a forward byte copy', 'src/c/_cffi_backend.c',
     "    memmove(dest_view.buf, src_view.buf, n);",
     "    { Py_ssize_t i_; for (i_ = 0; i_ < n; i_++) ((char *)dest_view.buf)[i_] = ((char *)src_view.buf)[i_]; }"),
    ('C19', 'from_buffer rounds the item count up', 'src/c/_cffi_backend.c',
     "arraylength = view->len / ct->ct_itemdescr->ct_size;",
     "arraylength = (view->len + ct->ct_itemdescr->ct_size - 1) / ct->ct_itemdescr->ct_size;"),
]


def sensitivity(ids):
    wt = tempfile.mkdtemp(prefix='cffi-verif-selftest-', dir='/tmp')
    os.rmdir(wt)
    subprocess.check_call(['git', '-C', '/repo', 'worktree', 'add', '--detach', wt], stdout=subprocess.DEVNULL,
                          stderr=subprocess.DEVNULL)
    ok = True
    lines = []
    try:
        for pid, name, rel, old, new in PLANTED:
            if pid not in ids:
                continue
            subprocess.check_call(['git', '-C', wt, 'checkout', '-q', '--', '.'])
            path = os.path.join(wt, rel)
            with open(path) as f:
                s = f.read()
            olds, news = (old, new) if isinstance(old, list) else ([old], [new])
            if any(o not in s for o in olds):
                line = '%s planted bug "%s": PATTERN NOT FOUND in %s (tree changed?)' % (pid, name, rel)
                print(line)
                lines.append(line)
                continue
            with open(path, 'w') as f:
                for o, n in zip(olds, news):
                    s = s.replace(o, n, 1)
                f.write(s)
            env = dict(os.environ, VERIF_REPO=wt)
            env.pop('VERIF_REEXEC', None)
            t0 = time.time()
            p = subprocess.run([os.path.join(HERE, 'check'), pid, 'quick'], env=env, stdout=subprocess.PIPE,
                               stderr=subprocess.STDOUT, timeout=3000)
            text = p.stdout.decode('utf-8', 'replace')
            viol = [l for l in text.splitlines() if l.startswith('VIOLATION')]
            det = [l for l in text.splitlines() if l.startswith('DETAIL')]
            status = 'DETECTED' if (p.returncode == 1 and viol) else 'MISSED (exit %d)' % p.returncode
            if status != 'DETECTED':
                ok = False
            line = '%s planted bug "%s": %s in %.0fs  %s' % (pid, name, status, time.time() - t0,
                                                              (det[0][:200] if det else ''))
            print(line)
            sys.stdout.flush()
            lines.append(line)
    finally:
        subprocess.call(['git', '-C', '/repo', 'worktree', 'remove', '--force', wt], stdout=subprocess.DEVNULL,
                        stderr=subprocess.DEVNULL)
        shutil.rmtree(wt, ignore_errors=True)
        subprocess.call(['git', '-C', '/repo', 'worktree', 'prune'])
    return ok, lines


def stubfidelity():
    """Engine C runs the start-up code against a STUB of CPython.  As a cross-check of the stub (it decides
    nothing about the property) the repository's own embedding tests -- real libpython, real threads, one
    uncontrolled schedule each -- are run against the working tree; they need PYTHONPATH to find the package."""
    td = tempfile.mkdtemp(prefix='cffi-verif-embed-', dir='/tmp')
    try:
        env = dict(os.environ, PYTHONPATH='/repo/src', TMPDIR=td)
        p = subprocess.run(['/venv/bin/python', '-m', 'pytest', '-q', '-p', 'no:cacheprovider', 'testing/embedding'],
                           cwd='/repo', env=env, stdout=subprocess.PIPE, stderr=subprocess.STDOUT, timeout=3000)
        tail = p.stdout.decode('utf-8', 'replace').strip().splitlines()[-1]
    finally:
        shutil.rmtree(td, ignore_errors=True)
        subprocess.call('rm -rf /repo/testing/embedding/__pycache__', shell=True)
    line = 'C28 stub-fidelity cross-check: real embedding tests (testing/embedding, PYTHONPATH=/repo/src): %s' % tail
    print(line)
    return True, [line]


def main():
    args = sys.argv[1:]
    if not args:
        print(__doc__)
        return 2
    mode = args[0]
    rest = args[1:]
    nmul = 1.0
    if rest and rest[0].replace('.', '').isdigit():
        nmul = float(rest[0])
        rest = rest[1:]
    ids = [x.upper() for x in rest] or ALL
    if mode == 'determinism':
        ok, lines = determinism(ids, nmul)
    elif mode == 'sensitivity':
        ok, lines = sensitivity(ids)
    elif mode == 'stubfidelity':
        ok, lines = stubfidelity()
        ids = ['C28']
    else:
        print(__doc__)
        return 2
    os.makedirs(os.path.join(HERE, 'selftest'), exist_ok=True)
    with open(os.path.join(HERE, 'selftest', 'RESULTS.md'), 'a') as f:
        f.write('\n## %s %s (%s)\n\n' % (mode, ' '.join(ids), time.strftime('%Y-%m-%d %H:%M:%S')))
        for l in lines:
            f.write('- %s\n' % l)
    return 0 if ok else 2


if __name__ == '__main__':
    sys.exit(main())
