#!/usr/bin/env python3
"""Run the existing test suite against a recorded seeded change quickly: the patched tree is copied once per
shard (so that shards do not race on the __pycache__ build directories next to the test files), each shard
gets a private TMPDIR and a share of the test files, and the per-shard pytest summaries are added up and
stored in the change's meta.json.

usage: seedtests_fast.py <name> [...]        (names of directories under /verif/seeded)"""
import os, sys, subprocess, shutil, json, re, glob
from concurrent.futures import ThreadPoolExecutor

VERIF = os.path.dirname(os.path.dirname(os.path.abspath(__file__)))
PY = '/venv/bin/python'
NSHARD = int(os.environ.get('SEEDTESTS_SHARDS', '6'))
# heavy files first, each alone at the head of a shard; the rest are dealt round-robin by size
HEAVY = ['testing/cffi1/test_recompiler.py', 'testing/cffi0/test_verify.py', 'testing/cffi1/test_verify1.py',
         'testing/cffi1/test_new_ffi_1.py', 'testing/embedding', 'testing/cffi1/test_zdist.py']


def shards(wt):
    files = ['src/c/test_c.py'] + sorted(glob.glob('testing/cffi0/test_*.py', root_dir=wt)) + \
            sorted(glob.glob('testing/cffi1/test_*.py', root_dir=wt)) + ['testing/embedding']
    rest = [f for f in files if f not in HEAVY]
    rest.sort(key=lambda f: -os.path.getsize(os.path.join(wt, f)))
    out = [[h] for h in HEAVY[:NSHARD]]
    while len(out) < NSHARD:
        out.append([])
    for h in HEAVY[NSHARD:]:
        rest.insert(0, h)
    i = 0
    for f in rest:
        out[(NSHARD - 1 - i) % NSHARD].append(f)
        i += 1
    return out


def one(name):
    d = os.path.join(VERIF, 'seeded', name)
    mp = os.path.join(d, 'meta.json')
    meta = json.load(open(mp))
    wt = '/tmp/ft_%s' % name
    subprocess.call(['git', '-C', '/repo', 'worktree', 'remove', '--force', wt], stdout=subprocess.DEVNULL,
                    stderr=subprocess.DEVNULL)
    shutil.rmtree(wt, ignore_errors=True)
    subprocess.check_call(['git', '-C', '/repo', 'worktree', 'add', '--detach', wt], stdout=subprocess.DEVNULL,
                          stderr=subprocess.DEVNULL)
    copies = []
    try:
        pf = os.path.join(d, 'patch.rebased.diff')
        if not os.path.exists(pf):
            pf = os.path.join(d, 'patch.diff')
        subprocess.check_call(['git', '-C', wt, 'apply', pf])
        subprocess.check_call([PY, 'setup.py', '-q', 'build_ext', '--inplace', '--force'], cwd=wt,
                              stdout=subprocess.DEVNULL, stderr=subprocess.DEVNULL)
        sh = shards(wt)

        def run(i):
            cp = '%s_s%d' % (wt, i)
            shutil.rmtree(cp, ignore_errors=True)
            shutil.copytree(wt, cp, symlinks=True, ignore=shutil.ignore_patterns('.git', 'build'))
            copies.append(cp)
            td = cp + '_tmp'
            shutil.rmtree(td, ignore_errors=True)
            os.makedirs(td)
            copies.append(td)
            env = dict(os.environ, PYTHONPATH=os.path.join(cp, 'src'), TMPDIR=td)
            p = subprocess.run('timeout 2400 %s -m pytest -q -p no:cacheprovider --timeout=900 %s 2>&1 | tail -40'
                               % (PY, ' '.join(sh[i])), shell=True, cwd=cp, env=env, stdout=subprocess.PIPE)
            return p.stdout.decode('utf-8', 'replace')
        with ThreadPoolExecutor(NSHARD) as ex:
            outs = list(ex.map(run, range(NSHARD)))
        tot = {}
        bad = []
        for i, o in enumerate(outs):
            last = o.strip().splitlines()[-1] if o.strip() else '(no output)'
            m = re.findall(r'(\d+) (passed|failed|skipped|error|errors|xfailed|xpassed)', last)
            if not m:
                bad.append('shard %d: %s' % (i, last))
            for n, k in m:
                tot[k] = tot.get(k, 0) + int(n)
            if re.search(r'\d+ (failed|error)', last):
                bad.append('shard %d (%s): %s' % (i, ' '.join(sh[i]), '\n'.join(
                    l for l in o.splitlines() if l.startswith(('FAILED', 'ERROR')))))
        meta['existing_tests_with_change'] = dict(sharded=NSHARD, totals=tot, problems=bad)
        print(name, tot, bad)
        with open(mp, 'w') as f:
            json.dump(meta, f, indent=1, sort_keys=True)
    finally:
        for c in copies:
            shutil.rmtree(c, ignore_errors=True)
        subprocess.call(['git', '-C', '/repo', 'worktree', 'remove', '--force', wt], stdout=subprocess.DEVNULL,
                        stderr=subprocess.DEVNULL)
        shutil.rmtree(wt, ignore_errors=True)


if __name__ == '__main__':
    with ThreadPoolExecutor(4) as ex:
        list(ex.map(one, sys.argv[1:]))
