#!/usr/bin/env python3
"""Confirm a seeded change produced by an independent sub-agent and record it under
/verif/seeded/<name>/ :  the change still builds, the existing tests pass with it, its
demonstration fails with it and passes without it; then run our check against it.

usage: seedcheck.py <PROPERTY> <k> [--no-tests]
reads  /tmp/seed_out/<PROPERTY>/patch<k>.diff, demo<k>.py (or demo<k>/), notes<k>.md
"""
import os, sys, subprocess, shutil, json, time

VERIF = os.path.dirname(os.path.dirname(os.path.abspath(__file__)))
PY = '/venv/bin/python'
REF = '/tmp/ref_clean'


def sh(cmd, cwd=None, env=None, timeout=3000):
    p = subprocess.run(cmd, cwd=cwd, env=env, shell=isinstance(cmd, str), stdout=subprocess.PIPE,
                       stderr=subprocess.STDOUT, timeout=timeout)
    return p.returncode, p.stdout.decode('utf-8', 'replace')


def ensure_ref():
    if not os.path.isdir(REF):
        sh(['git', '-C', '/repo', 'worktree', 'add', '--detach', REF])
        rc, out = sh([PY, 'setup.py', '-q', 'build_ext', '--inplace'], cwd=REF)
        if rc != 0:
            raise SystemExit('reference build failed: ' + out[-2000:])


def run_demo(src, tree):
    env = dict(os.environ, PYTHONPATH=os.path.join(tree, 'src'),
               LD_LIBRARY_PATH='/root/.pyenv/versions/3.12.1/lib')
    if os.path.isdir(src):
        for name in ('run.sh', 'run.py'):
            if os.path.exists(os.path.join(src, name)):
                cmd = (['sh', name] if name.endswith('.sh') else [PY, name]) + [tree]
                return sh(cmd, cwd=src, env=env, timeout=900)
        return 99, 'no run.sh / run.py in demo dir'
    return sh([PY, src], cwd='/tmp', env=env, timeout=900)


def main():
    srcname, k = sys.argv[1], sys.argv[2]
    pid = srcname[:3].upper()           # e.g. C21b -> property C21, second batch
    notests = '--no-tests' in sys.argv
    src = '/tmp/seed_out/%s' % srcname
    patch = os.path.join(src, 'patch%s.diff' % k)
    demo = os.path.join(src, 'demo%s.py' % k)
    if not os.path.exists(demo):
        demo = os.path.join(src, 'demo%s' % k)
    ensure_ref()
    wt = '/tmp/try_%s_%s' % (srcname, k)
    sh(['git', '-C', '/repo', 'worktree', 'remove', '--force', wt])
    shutil.rmtree(wt, ignore_errors=True)
    rc, out = sh(['git', '-C', '/repo', 'worktree', 'add', '--detach', wt])
    meta = dict(property=pid, source='independent sub-agent (saw only the property text and its own worktree)',
                patch='patch.diff', when=time.strftime('%Y-%m-%d %H:%M:%S'))
    try:
        rc, out = sh(['git', '-C', wt, 'apply', patch])
        if rc != 0:
            rc, out = sh(['git', '-C', wt, 'apply', '--3way', patch])
        if rc != 0:
            print('PATCH DOES NOT APPLY', out)
            return 2
        rc, out = sh([PY, 'setup.py', '-q', 'build_ext', '--inplace', '--force'], cwd=wt)
        meta['builds'] = (rc == 0)
        if rc != 0:
            print('BUILD FAILED', out[-1500:])
            return 2
        rc_with, out_with = run_demo(demo, wt)
        rc_without, out_without = run_demo(demo, REF)
        meta['demo_with_change_exit'] = rc_with
        meta['demo_without_change_exit'] = rc_without
        print('demo with change: exit %d | without: exit %d' % (rc_with, rc_without))
        if not notests:
            # the existing suite, serial within each directory (xdist workers race on the shared
            # __pycache__ build directories), two directories side by side with private TMPDIRs
            import threading
            res = {}

            def part(name, paths):
                td = '/tmp/seedtests_%s_%s_%s' % (srcname, k, name)
                shutil.rmtree(td, ignore_errors=True)
                os.makedirs(td)
                env = dict(os.environ, PYTHONPATH=os.path.join(wt, 'src'), TMPDIR=td)
                rc, out = sh('timeout 3000 %s -m pytest -q -p no:cacheprovider %s 2>&1 | tail -3' % (PY, paths),
                             cwd=wt, env=env, timeout=3100)
                res[name] = out.strip().splitlines()[-1] if out.strip() else ''
                shutil.rmtree(td, ignore_errors=True)
            ts = [threading.Thread(target=part, args=('a', 'src/c/test_c.py testing/cffi1')),
                  threading.Thread(target=part, args=('b', 'testing/cffi0'))]
            for t in ts:
                t.start()
            for t in ts:
                t.join()
            meta['existing_tests_with_change'] = res
            print('existing tests with change:', res)
        env = dict(os.environ, VERIF_REPO=wt)
        env.pop('VERIF_REEXEC', None)
        t0 = time.time()
        rc, out = sh([os.path.join(VERIF, 'check'), pid, 'quick'], cwd=VERIF, env=env)
        lines = [l for l in out.splitlines() if l.startswith(('DETAIL', 'VIOLATION', 'OK ', 'HARNESS'))]
        meta['our_check'] = dict(cmd='VERIF_REPO=<tree with patch> ./check %s quick' % pid, exit=rc,
                                 seconds=round(time.time() - t0, 1), output=lines[:4])
        print('our check: exit %d  %s' % (rc, lines[:2]))
        name = '%s-%s' % (srcname, k)
        dst = os.path.join(VERIF, 'seeded', name)
        shutil.rmtree(dst, ignore_errors=True)
        os.makedirs(dst)
        shutil.copy(patch, os.path.join(dst, 'patch.diff'))
        if os.path.isdir(demo):
            shutil.copytree(demo, os.path.join(dst, 'demo'))
            meta['demo'] = 'demo/ (run.sh|run.py <tree>)'
        else:
            shutil.copy(demo, os.path.join(dst, 'demo.py'))
            meta['demo'] = 'demo.py (PYTHONPATH=<tree>/src /venv/bin/python demo.py)'
        notes = os.path.join(src, 'notes%s.md' % k)
        if os.path.exists(notes):
            shutil.copy(notes, os.path.join(dst, 'notes.md'))
        meta['detected'] = (rc == 1)
        with open(os.path.join(dst, 'meta.json'), 'w') as f:
            json.dump(meta, f, indent=1, sort_keys=True)
        return 0
    finally:
        sh(['git', '-C', '/repo', 'worktree', 'remove', '--force', wt])
        shutil.rmtree(wt, ignore_errors=True)
        sh('rm -rf /tmp/ffi-* 2>/dev/null; true')


if __name__ == '__main__':
    sys.exit(main())
