#!/bin/sh
# run every quick check against /repo itself (regenerates evidence/*.json); prints one line per check
cd "$(dirname "$0")/.." || exit 2
unset VERIF_REPO
rc=0
for id in C16 C19 C21 C22 C23 C26 C27 C28 C29 C35 C36 C37; do
  out=$(timeout 1500 ./check $id ${1:-quick} 2>&1); st=$?
  echo "$id exit=$st $(echo "$out" | grep -E '^(OK|VIOLATION|HARNESS|KNOWN)' | head -2 | tr '\n' ' ')"
  [ $st -ne 0 ] && rc=1
done
exit $rc
