#!/usr/bin/env python3
"""Re-run only the existing test suite for recorded seeded changes whose earlier run was cut off by the
time limit (the machine was saturated), and store the summaries in their meta.json.

usage: seedtests.py <name>:<a|b> [...]        (names of directories under /verif/seeded; part a = src/c/test_c.py +
testing/cffi1, part b = testing/cffi0)"""
import os, sys, subprocess, shutil, json, threading

VERIF = os.path.dirname(os.path.dirname(os.path.abspath(__file__)))
PY = '/venv/bin/python'


def main():
    for arg in sys.argv[1:]:
        name, only = arg.split(':')
        d = os.path.join(VERIF, 'seeded', name)
        mp = os.path.join(d, 'meta.json')
        meta = json.load(open(mp))
        wt = '/tmp/retest_%s_%s' % (name, only)
        subprocess.call(['git', '-C', '/repo', 'worktree', 'remove', '--force', wt], stdout=subprocess.DEVNULL,
                        stderr=subprocess.DEVNULL)
        subprocess.check_call(['git', '-C', '/repo', 'worktree', 'add', '--detach', wt], stdout=subprocess.DEVNULL,
                              stderr=subprocess.DEVNULL)
        try:
            pf = os.path.join(d, 'patch.rebased.diff')
            if not os.path.exists(pf):
                pf = os.path.join(d, 'patch.diff')
            if subprocess.call(['git', '-C', wt, 'apply', pf]) != 0:
                subprocess.check_call(['git', '-C', wt, 'apply', '--3way', pf])
            subprocess.check_call([PY, 'setup.py', '-q', 'build_ext', '--inplace', '--force'], cwd=wt,
                                  stdout=subprocess.DEVNULL, stderr=subprocess.DEVNULL)
            res = {}

            def part(key, paths):
                td = '/tmp/retest_tmp_%s_%s' % (name, key)
                shutil.rmtree(td, ignore_errors=True)
                os.makedirs(td)
                env = dict(os.environ, PYTHONPATH=os.path.join(wt, 'src'), TMPDIR=td)
                p = subprocess.run('timeout 6000 %s -m pytest -q -p no:cacheprovider %s 2>&1 | tail -3' % (PY, paths),
                                   shell=True, cwd=wt, env=env, stdout=subprocess.PIPE)
                out = p.stdout.decode('utf-8', 'replace').strip()
                res[key] = out.splitlines()[-1] if out else ''
                shutil.rmtree(td, ignore_errors=True)
            part(only, {'a': 'src/c/test_c.py testing/cffi1', 'b': 'testing/cffi0'}[only])
            # another job may have updated the other part meanwhile: re-read, then write
            with open('/tmp/retest.lock', 'w') as lk:
                import fcntl
                fcntl.flock(lk, fcntl.LOCK_EX)
                meta = json.load(open(mp))
                meta.setdefault('existing_tests_with_change', {})[only] = res[only]
                json.dump(meta, open(mp, 'w'), indent=1, sort_keys=True)
            print(name, res)
            sys.stdout.flush()
        finally:
            subprocess.call(['git', '-C', '/repo', 'worktree', 'remove', '--force', wt], stdout=subprocess.DEVNULL,
                            stderr=subprocess.DEVNULL)
            shutil.rmtree(wt, ignore_errors=True)


if __name__ == '__main__':
    main()
