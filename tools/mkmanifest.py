#!/usr/bin/env python3
"""Regenerates /verif/MANIFEST.json from the table below (single source of truth)."""
import json, os
HERE = os.path.dirname(os.path.dirname(os.path.abspath(__file__)))

IMPLEMENTED = {
    # id: (engine, level, design_ref, technique, level_text, level_note)
    'C26': ('P', 'exploration', 'DESIGN.md 3.1',
            'deterministic simulation: seeded baton scheduler over real threads, bytecode-level pre-emption, fault injection (raising initializers, hostile tag equality, stalls), history oracle',
            'Seeded search over schedules of the real Python and C init_once implementations with injected initializer failures; each run is replayable from its recorded decisions. Sampling, not proof: a clean batch is evidence that no interleaving of the explored shape violates mutual exclusion / single completion / agreement / exception propagation / progress.',
            'GIL-build semantics: switches at bytecode boundaries of FFI.init_once and at GIL-release sites of ffi_init_once; sequential consistency; <=4 threads x <=3 calls; harness scheduler and oracle are trusted.'),
    'C28': ('C', 'exploration', 'DESIGN.md 3.2',
            'deterministic simulation: seeded coroutine scheduler over the real generated embedding start-up C code with a stubbed CPython; fault injection (failing/raising init code, failed import/module init/compile, recursive and cross-library calls, stalls); invariants checked at event time; exact deadlock detection',
            'Seeded search over schedules and init-failure sequences of the real _embedding.h start-up path for two libraries and up to 3 threads; every run replayable from its case line and recorded decisions. Sampling, not proof.',
            'CPython is a stub (GIL/initialization model); sequentially consistent interleavings with switches only at CAS/barrier/mutex/assert/C-API seams; memory-ordering bugs and switches between adjacent plain accesses are out of reach.'),
    'C23': ('F', 'fault_enumeration', 'DESIGN.md 3.5',
            'deterministic simulation of the file system under the real write path: exhaustive crash-point enumeration (process death before every I/O step, torn variant of every write, short writes) per sampled case, recovery run after each crash; plus a cross-interpreter determinism sweep (hash seeds, histories)',
            'For every sampled (cdef, route, old target state, buffering) case, every I/O step of the real regeneration is enumerated as a crash point and atomicity, recovery and idempotence are checked; cases are sampled, crash points per case are exhaustive. Determinism is checked by digest equality across fresh interpreters.',
            'Crash = process death with the OS file view preserved (no power loss / fsync modelling); rename atomic; SimFS models open/read/write/close/rename/unlink/makedirs as used by cffi.recompiler; the C compiler is never run.'),
    'C21': ('H', 'exploration', 'DESIGN.md 3.6',
            'deterministic simulation: single-client history simulator with the garbage collector as an injected event, explicit reference drops, gremlin finalizers acting during collection, injected allocator/destructor/initializer/exporter failures; reference-graph model checked after every operation; glibc malloc poisoning',
            'Seeded search over operation histories with GC events, reference cycles and injected failures against a reference-graph model that knows exactly when each object must be alive, released or dead; checks destructor/free call counts, release idempotence, export locks, memory validity and handle identity after every op.',
            'CPython reference-counting semantics (acyclic objects die at drop, cyclic garbage at the next collect); harness fakes for allocators/destructors/exporters; PEP 688 exporters are kept alive by the harness because CPython 3.12.1 itself crashes when their inner memoryview is collected while exported.'),
    'C27': ('H', 'exploration', 'DESIGN.md 3.7',
            'deterministic simulation: history simulator over type-building operations with GC as an injected event, FFI drops, address-reuse churn and gremlin finalizers that rebuild types during a collection; structural-description vs identity invariant after every operation',
            'Seeded search over histories of building, dropping and collecting derived ctypes through every construction route (Python parser, C parser, backend constructors, cdata), including rebuilding a type inside a finalizer while its predecessor is being collected; after every op all reachable ctypes must be pairwise distinct in structure.',
            'Only ctypes reachable from the harness slots are compared; aggregates/enums by identity; CPython weakref/GC ordering semantics.'),
    'C29': ('H', 'exploration', 'DESIGN.md 3.8',
            'deterministic simulation: history simulator over callback create/call/drop operations with GC as an injected event, bulk growth across closure-page boundaries, injected mmap failure at a growth step (build-time shim), creations that fail after the closure was taken, gremlin finalizers creating callbacks during collection; address-distinctness and own-function oracles',
            'Seeded search over create/drop/call histories that cross several growth steps of the closure allocator and reuse freed closures, with resource faults placed inside growth; live addresses tracked through weak references must stay pairwise distinct and every call must run exactly its own function.',
            'The closure free list is process state: a replay re-executes the runs that preceded the failing one in its worker (recorded in the replay file). Only live callbacks are invoked.'),
    'C37': ('H', 'exploration', 'DESIGN.md 3.9',
            'deterministic simulation: history simulator with the dlclose event (explicit, repeated, or by injected garbage collection) placed at arbitrary points of an access history over a real compiled library in both ABI modes; dlopen/dlsym/dlclose of the backend logged by a build-time pass-through shim; model of per-library closed/fetched state and of the library memory',
            'Seeded search over access histories with the close event injected anywhere; every access after the close must raise, no dlsym may reach a handle after its dlclose (observed at the libc seam), repeated close must be silent, and the still-mapped library memory must equal the model (a refused write must not land).',
            'The harness keeps its own reference on the test library so a faulty access is observed, not suffered; outcomes the statement leaves open (re-fetch of a pre-fetched function, addressof, constants after close) are counted, never reported.'),
    'C35': ('F', 'exploration', 'DESIGN.md 3.10',
            'deterministic simulation of the pkg-config peer: cffi.pkgconfig.subprocess rebound to a scripted fake child process with injected spawn failures, non-zero exits, death by signal and undecodable output, placed on any (package, flag) query; a slice of runs through a real stub executable; reference translator as oracle',
            'Seeded search over token sequences and peer failures for flags_from_pkgconfig/merge_flags; every failing or undecodable run must surface as PkgConfigError and every successful one must equal the reference translation including order.',
            'Weakest fit for simulation (the only nondeterministic party is the child process); backslash outputs and prefix/flag combinations the statement leaves open are not generated.'),
    'C36': ('P', 'exploration', 'DESIGN.md 3.4 and appendix C',
            'deterministic simulation: seeded baton scheduler over real Python threads AND real pthreads not created by Python (mailbox loop in a helper extension, parked inside a cffi callback), with switch points inside callback bodies, injected GC events, raising bodies, thread exits joined so the TLS destructor has run, thread-state counts read at the reclamation point; plus one-process-per-seed interpreter-shutdown scenarios',
            'Seeded search over creation/use/exit orders of foreign threads interleaved with Python-thread callbacks and GC; checks valid thread identity, persistence of threading.local data per foreign thread, no leak of thread-local data or thread states into later threads, and survival of the process (including at interpreter shutdown with zombies or live threads).',
            'Only one OS thread executes Python/cffi code at any instant (GIL build); both USE__THREAD build variants; process-wide thread-state bookkeeping makes runs history dependent (replays carry their prelude).'),
    'C22': ('P', 'exploration', 'DESIGN.md 3.3',
            'deterministic simulation: seeded baton scheduler over real Python threads (and a foreign pthread) running errno traffic through every call path, with switch points between operations and inside callback bodies (i.e. while a thread is inside C between errno restore and errno save), plus pairs of foreign threads held at a gate right before they acquire the GIL so that both are past the callback entry before either holds it, and C callers that hold the GIL themselves; a second phase under engine C (the start-up simulator of C28) observes the errno with which cffi_call_python is entered on calls into an embedded library; one-integer-per-thread reference model checked at every observation; both USE__THREAD build variants',
            'Seeded search over interleavings of per-thread errno operations across all call-out and call-in paths; any cross-thread leak or lost save/restore shows up as a mismatch between an observation and the thread\'s own model value.',
            'Values are only asserted where cffi promises them (what C sees right after restore, what ffi.errno returns right after save); sequentially consistent switching at explicit points only.'),
    'C16': ('H', 'exploration', 'DESIGN.md 3.11',
            'history refinement against a byte model over aliased array/pointer views, with faults injected inside multi-element slice assignments (k-th item unconvertible, iterator raising at item k, wrong counts); single client, no scheduler -- the fault-free configuration is plain model-based testing and is labelled as such',
            'Seeded search over operation histories on arrays of 16 element kinds (item sizes 1,2,3,4,6,8) and their views; acceptance rules, aliasing, pointer identities and the exact memory effect of accepted, rejected and partially failed operations are compared with one bytearray per allocation after every op.',
            'Weakest fit for the technique (no schedule, clock or crash): what simulation adds is the history over aliased views and fault placement inside slice assignment; partial-write relaxation as documented in DESIGN 3.11.'),
    'C19': ('H', 'exploration', 'DESIGN.md 3.12',
            'history refinement against a byte model over cdata / bytearray / array.array stores and ffi.buffer / from_buffer views, with injected refusing exporters, wrong-length/type assignments, every memmove overlap class, and drop + GC + churn of the cdata behind a live view; single client, no scheduler',
            'Seeded search over operation histories; buffer reads/writes follow bytearray slice semantics with length-preserving assignment, from_buffer item counts and aliasing, and memmove equals a copy through a temporary for every operand pair and overlap; every store is compared with its model after every op.',
            'Weakest fit for the technique; steps, cdata right-hand sides, overlapping slice sources and out-of-bounds memmove are excluded as unspecified/undefined.'),
}

PENDING = {
}

NA = {
 'C01': 'struct/union layout is a pure function of the declaration; the oracle is the C compiler (differential input generation), no schedule/fault/history to simulate.',
 'C02': 'bitfield read/write is a pure function of (type, width, offset, value); nothing for a scheduler or fault injector to own.',
 'C03': 'integer store acceptance/round-trip is a pure function of (type, store path, value).',
 'C04': 'ffi.cast to integer/char types is a pure function of (type, source value).',
 'C05': 'float/complex/long double conversion is a pure function of the bit pattern and target type.',
 'C06': 'finite table comparison of primitive facts; its "configurations" are a fixed name list, not a source of nondeterminism.',
 'C07': 'agreement of two parsers on a type string: pure, differential over a grammar.',
 'C08': 'getctype/typeof round trip: pure function of (ctype, declarator text).',
 'C09': 'constant-expression evaluation: pure function of the expression; oracle is the C compiler.',
 'C10': 'enum values/size/signedness: pure function of the enumerator list; oracle is the C compiler.',
 'C11': 'out-of-line ABI module vs in-line FFI: serialisation round trip, pure in the cdef (the write path crash behaviour is covered by C23).',
 'C12': 'API-mode fidelity and mismatch detection: differential over (cdef, C source) programs, no interleaving or fault.',
 'C13': 'four call paths agree: pure in (signature, arguments); the thread-local errno aspect is C22.',
 'C14': 'callback value passing and error containment: function of (signature, arguments, body kind); the threaded and errno aspects are C36/C22.',
 'C15': 'string/char-array round trip: pure function of the string and element type.',
 'C17': 'equality/ordering/hash consistency: pure function of a pair of values.',
 'C18': 'unpack vs element-wise read: pure function of (type, contents, alignment, length).',
 'C20': 'ffi.new zero-fill/initializer equivalence: pure function of (type, initializer).',
 'C24': 'cffi-gen-src vs emit_c_code byte equality: pure in the inputs; the subprocess is only an invocation route.',
 'C25': 'name lookup over sorted tables: an order/search property of identifier sets (proof or input exploration).',
 'C30': 'error-type contract and memory safety on arbitrary text: fuzzing with sanitizers over inputs.',
 'C31': 'comment/whitespace invariance: metamorphic over inputs.',
 'C32': 'verify() module name: pure in (inputs, hash seed); a hash-seed diff is a configuration comparison with no schedule or fault to search.',
 'C33': 'verify() vs set_source() behaviour: differential over programs.',
 'C34': 'include() sharing: identity of declarations across FFIs, pure in the cdef chain.',
}

PLANNED = {
 'C16': 'DESIGN.md 3.11', 'C19': 'DESIGN.md 3.12', 'C21': 'DESIGN.md 3.6', 'C22': 'DESIGN.md 3.3',
 'C23': 'DESIGN.md 3.5', 'C27': 'DESIGN.md 3.7', 'C28': 'DESIGN.md 3.2', 'C29': 'DESIGN.md 3.8',
 'C35': 'DESIGN.md 3.10', 'C36': 'DESIGN.md 3.4', 'C37': 'DESIGN.md 3.9',
}

ENGINES = {
 'P': ('sim/pysched.py', 'seeded baton-passing scheduler over real Python (and foreign) threads; sys.monitoring INSTRUCTION pre-emption; SimLock; C lock hook and GIL-acquisition gate via private backend build'),
 'C': ('sim/c/embed', 'seeded ucontext coroutine scheduler over the real generated embedding C code with a stubbed CPython; data segment restored after every run'),
 'H': ('sim/hist.py', 'single-client history simulator with injected GC / drop / close / gremlin-finalizer / resource-failure events and reference models'),
 'F': ('sim/simfs.py', 'simulated file system under cffi.recompiler.open/os with crash-point enumeration; fake pkg-config child process'),
}


def main():
    checks = []
    for pid in sorted(IMPLEMENTED):
        eng, level, ref, tech, text, note = IMPLEMENTED[pid]
        checks.append(dict(
            property_id=pid,
            quick_cmd='timeout 1500 ./check %s quick' % pid,
            thorough_cmd='timeout 7200 ./check %s thorough' % pid,
            evidence_file='evidence/%s.json' % pid,
            replay_cmd_template='./check %s --replay {path}' % pid,
            engine=eng,
            level_claimed=dict(category=level, text=text, design_ref=ref),
            level_note=note,
            technique=tech))
    na = [dict(property_id=k, reason=v) for k, v in sorted(NA.items())]
    for pid, ref in sorted(PLANNED.items()):
        if pid not in IMPLEMENTED:
            na.append(dict(property_id=pid, reason='applicable and designed (%s) but its check is not built yet; not claimed until it is' % ref))
    na.sort(key=lambda d: d['property_id'])
    engines = []
    for name, (path, txt) in sorted(ENGINES.items()):
        serves = sorted(p for p, v in IMPLEMENTED.items() if name in v[0])
        if serves:
            engines.append(dict(name=name, path=path, serves_properties=serves, kind_free_text=txt))
    man = dict(
        version=1,
        setup_cmd='timeout 900 ./setup.sh',
        hooks=dict(
            guard='CFFI_VERIF_SIM (a -D macro plus -include of /verif/sim/c/backend_shim.h on the private build line only; no source change in /repo)',
            enable='every check compiles /repo/src/c/_cffi_backend.c itself with `-DCFFI_VERIF_SIM -include sim/c/backend_shim.h` into /verif/.cache and uses /repo/src/cffi in place; Python-level seams are module globals (cffi.api.allocate_lock, cffi.recompiler.open/os, cffi.pkgconfig.subprocess) rebound at run time',
            baseline_off_cmd='cd /repo && /venv/bin/python -m pytest -ra -q -p no:cacheprovider --timeout=900 --continue-on-collection-errors',
            source_commits=[],
            add_only=True),
        engines=engines,
        checks=checks,
        not_applicable=na,
        notes='Technique family: deterministic simulation with fault injection. Exit codes of every command: 0 held, 1 VIOLATION, 2 harness error. VERIF_SEED selects the seed stream; VERIF_REPO may point the checks at another checkout (used only for sensitivity testing against scratch worktrees). No hook commit in /repo (seams are applied to a private build); two unguarded repairs of genuine defects: /repo commit fd10245 "fix: slice bounds that do not fit in a ssize_t raise IndexError, not OverflowError" (found by C16) and /repo commit be4601f "fix: a generated file whose C source contains a carriage return is no longer rewritten every time" (found by C23); see known_findings.json and DESIGN.md 7.7.')
    with open(os.path.join(HERE, 'MANIFEST.json'), 'w') as f:
        json.dump(man, f, indent=1)
        f.write('\n')


if __name__ == '__main__':
    main()
