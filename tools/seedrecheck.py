#!/usr/bin/env python3
"""Re-run our check against every recorded seeded change (seeded/<name>/patch.diff) in a scratch
worktree and refresh the 'our_check' / 'detected' fields of its meta.json.
usage: seedrecheck.py [name ...]"""
import os, sys, json, subprocess, shutil, time
VERIF = os.path.dirname(os.path.dirname(os.path.abspath(__file__)))


def main():
    names = sys.argv[1:] or sorted(os.listdir(os.path.join(VERIF, 'seeded')))
    for name in names:
        d = os.path.join(VERIF, 'seeded', name)
        mp = os.path.join(d, 'meta.json')
        if not os.path.exists(mp):
            continue
        meta = json.load(open(mp))
        pid = meta['property']
        wt = '/tmp/recheck_%s' % name
        subprocess.call(['git', '-C', '/repo', 'worktree', 'remove', '--force', wt], stdout=subprocess.DEVNULL, stderr=subprocess.DEVNULL)
        subprocess.check_call(['git', '-C', '/repo', 'worktree', 'add', '--detach', wt], stdout=subprocess.DEVNULL, stderr=subprocess.DEVNULL)
        try:
            # patch.diff is the change as it was made, against the pinned commit; where a later fix: commit
            # in /repo touches the same lines, patch.rebased.diff is the same change ported onto the fixed tree
            pf = os.path.join(d, 'patch.rebased.diff')
            if not os.path.exists(pf):
                pf = os.path.join(d, 'patch.diff')
            if subprocess.call(['git', '-C', wt, 'apply', pf]) != 0:
                subprocess.check_call(['git', '-C', wt, 'apply', '--3way', pf])
            env = dict(os.environ, VERIF_REPO=wt)
            env.pop('VERIF_REEXEC', None)
            t0 = time.time()
            p = subprocess.run([os.path.join(VERIF, 'check'), pid, 'quick'], cwd=VERIF, env=env, stdout=subprocess.PIPE,
                               stderr=subprocess.STDOUT, timeout=3000)
            out = p.stdout.decode('utf-8', 'replace')
            lines = [l for l in out.splitlines() if l.startswith(('DETAIL', 'VIOLATION', 'OK ', 'HARNESS'))]
            meta['our_check'] = dict(cmd='VERIF_REPO=<tree with patch> ./check %s quick' % pid, exit=p.returncode,
                                     seconds=round(time.time() - t0, 1), output=lines[:4],
                                     verif_commit=subprocess.run(['git', '-C', VERIF, 'rev-parse', '--short', 'HEAD'],
                                                                 stdout=subprocess.PIPE).stdout.decode().strip())
            meta['detected'] = (p.returncode == 1)
            json.dump(meta, open(mp, 'w'), indent=1, sort_keys=True)
            print('%s: %s  %s' % (name, 'DETECTED' if meta['detected'] else 'MISSED exit %d' % p.returncode,
                                  (lines[0][:160] if lines else '')))
            sys.stdout.flush()
        finally:
            subprocess.call(['git', '-C', '/repo', 'worktree', 'remove', '--force', wt], stdout=subprocess.DEVNULL, stderr=subprocess.DEVNULL)
            shutil.rmtree(wt, ignore_errors=True)


if __name__ == '__main__':
    main()
